#!/venv/bin/python
"""
Self-test of the source tie of stream `dirmodes` (harness/trans_dirmodes.py, lean/PelProps/TieC08.lean + TieC09.lean + TieC10.lean).

Applies source MUTANTS one at a time to the repository worktree named by VERIF_REPO (never /repo), regenerates
lean/PelGen/GenDirModes.lean with harness/extract.py, builds PelProps.TieC08 / TieC09 / TieC10 and prints a table

    mutant | kind | function | translated? | tie proved? | verdict

kind B = behaviour-changing (expected: tie BROKEN or translation UNAVAILABLE, never proved),
kind P = behaviour-preserving (ideally still proved, UNAVAILABLE acceptable, BROKEN reported).
The worktree is always restored (`git checkout -- .`) and the generated file regenerated from the clean tree.

    VERIF_REPO=/tmp/work/T8/repo tools/transtest_dirmodes.py [-k substring]
"""
import os
import re
import subprocess
import sys

VERIF = os.path.dirname(os.path.dirname(os.path.abspath(__file__)))
REPO = os.environ.get('VERIF_REPO')
if not REPO or os.path.realpath(REPO) == '/repo':
    sys.exit('set VERIF_REPO to a scratch worktree (never /repo)')
PY = '/venv/bin/python'
LEAN = os.path.join(VERIF, 'lean')

PL = 'modules/pel/peltool/peltool.py'
HD = 'modules/pel/hexdump.py'
TY = 'modules/pel/peltool/pel_types.py'

C08 = {'parsePELSummary', 'getFileList', 'printPELInHexFormat', 'extractAndSummarizePEL', 'listOption', 'extractAllPELsData', 'printPELCount'}
ALL = ['parsePELSummary', 'getFileList', 'printPELInHexFormat', 'extractAndSummarizePEL', 'dirParseAndPrintPELFile', 'listOption', 'extractAllPELsData', 'printPELCount',
       'parsePelFromID', 'parsePelFromBmcID', 'parsePelFromPLID', 'parsePelFromSRCID']
MODS = ['TieC08', 'TieC09', 'TieC10']


def rep(old, new, count=1):
    def f(text):
        if text.count(old) != count:
            raise RuntimeError('pattern %r occurs %d times, expected %d' % (old, text.count(old), count))
        return text.replace(old, new)
    return f


def seq(*fs):
    def f(text):
        for g in fs:
            text = g(text)
        return text
    return f


def infn(name, edit, indent=''):
    """apply `edit` to the text of one function only (from its `def` to the next definition at the same indentation)"""
    def f(text):
        m = re.search(r'^%sdef %s\(' % (indent, re.escape(name)), text, re.M)
        if not m:
            raise RuntimeError('no function %s' % name)
        n = re.search(r'^%s(def |class |@|if __name__)' % indent, text[m.end():], re.M)
        end = m.end() + n.start() if n else len(text)
        return text[:m.start()] + edit(text[m.start():end]) + text[end:]
    return f


STDERR_LIST = '            print(f"Exception: No PEL parsed for {file}: {e}", file=sys.stderr)'
SUMMARY_PRINT = '        print(prettyPrint(json.dumps(final_summary, indent=4) , desiredSpace = 29))'
HEXBRANCH = """                        if config.hex:
                            printPELInHexFormat(data)
                        else:
                            final_summary[eid] = summary
"""
HEXBRANCH_SWAPPED = """                        if not config.hex:
                            final_summary[eid] = summary
                        else:
                            printPELInHexFormat(data)
"""

# (id, kind, generated definition concerned, file, edit, description)
MUTANTS = [
    # ---------------- behaviour-changing
    ('B01', 'B', 'getFileList', PL, infn('getFileList', rep('extension != os.path.splitext(file)[1]', 'extension == os.path.splitext(file)[1]')), 'getFileList: != became == in the extension filter'),
    ('B02', 'B', 'getFileList', PL, infn('getFileList', rep('os.path.splitext(file)[1]', 'os.path.splitext(file)[0]')), 'getFileList: the stem instead of the extension'),
    ('B03', 'B', 'getFileList', PL, infn('getFileList', rep('file_list.sort(reverse=rev)', 'file_list.sort(reverse=True)')), 'getFileList: always reversed'),
    ('B04', 'B', 'getFileList', PL, infn('getFileList', rep('    file_list.sort(reverse=rev)\n', '')), 'getFileList: not sorted (statement dropped)'),
    ('B05', 'B', 'getFileList', PL, infn('getFileList', rep('        # Only process top level directory\n        break\n', '')), 'getFileList: subdirectories are walked too (break dropped)'),
    ('B06', 'B', 'getFileList', PL, infn('getFileList', rep('if extension and extension !=', 'if extension or extension !=')), 'getFileList: and became or'),
    ('B07', 'B', 'getFileList', PL, infn('getFileList', rep('                continue\n', '                break\n')), 'getFileList: the first other extension ends the listing'),
    ('B08', 'B', 'getFileList', PL, infn('getFileList', rep('            file_list.append(file)', '            file_list.append(file)\n            file_list.append(file)')), 'getFileList: every name twice'),
    ('B09', 'B', 'printPELInHexFormat', PL, rep('"-------------- PEL Begin  ----------------"', '"-------------- PEL begin  ----------------"'), 'printPELInHexFormat: marker text'),
    ('B10', 'B', 'printPELInHexFormat', PL, infn('printPELInHexFormat', rep('            print(line)\n', '            print(line, end="")\n')), 'printPELInHexFormat: dump lines without newline'),
    ('B11', 'B', 'printPELInHexFormat', PL, infn('printPELInHexFormat', seq(rep('PEL Begin  ', 'PEL TMP    '), rep('PEL End    ', 'PEL Begin  '), rep('PEL TMP    ', 'PEL End    '))), 'printPELInHexFormat: markers exchanged'),
    ('B12', 'B', 'printPELInHexFormat', HD, rep('bytes_per_line: int = 16', 'bytes_per_line: int = 32'), 'hexdump: default bytes per line'),
    ('B13', 'B', 'extractAndSummarizePEL', PL, infn('extractAndSummarizePEL', rep('                if config.hex:', '                if not config.hex:')), 'extractAndSummarizePEL: hex test negated'),
    ('B14', 'B', 'extractAndSummarizePEL', PL, infn('extractAndSummarizePEL', rep('                    return eid, summary', '                    return "", summary')), 'extractAndSummarizePEL: entry id not returned'),
    ('B15', 'B', 'extractAndSummarizePEL', PL, infn('extractAndSummarizePEL', rep('{e}", file=sys.stderr)', '{e}")')), 'extractAndSummarizePEL: diagnostic on stdout'),
    ('B16', 'B', 'extractAndSummarizePEL', PL, infn('extractAndSummarizePEL', rep('except Exception as e:', 'except ValueError as e:')), 'extractAndSummarizePEL: only ValueError is caught'),
    ('B17', 'B', 'listOption', PL, infn('listOption', rep('        if eid :', '        if not eid :')), 'listOption: test negated'),
    ('B18', 'B', 'listOption', PL, infn('listOption', rep('desiredSpace = 29', 'desiredSpace = 30')), 'listOption: alignment column'),
    ('B19', 'B', 'listOption', PL, infn('listOption', rep('    if not config.hex:', '    if config.hex:')), 'listOption: summary printed with -x only'),
    ('B20', 'B', 'listOption', PL, infn('listOption', rep('final_summary[eid] = summary', 'final_summary[eid] = eid')), 'listOption: the id stored instead of the summary'),
    ('B21', 'B', 'listOption', PL, infn('listOption', rep('getFileList(path, config.extension, config.rev)', 'getFileList(path, config.extension)')), 'listOption: --reverse ignored'),
    ('B22', 'B', 'listOption', PL, infn('listOption', rep('final_summary[eid] = summary', 'final_summary["x"] = summary')), 'listOption: every summary under one key'),
    ('B23', 'B', 'extractAllPELsData', PL, infn('extractAllPELsData', rep('print("[")', 'print("{")')), 'extractAllPELsData: opening bracket'),
    ('B24', 'B', 'extractAllPELsData', PL, infn('extractAllPELsData', rep('print(",")', 'print(";")')), 'extractAllPELsData: separator'),
    ('B25', 'B', 'extractAllPELsData', PL, infn('extractAllPELsData', rep('print(json_string, end = "")', 'print(json_string)')), 'extractAllPELsData: newline after every document'),
    ('B26', 'B', 'extractAllPELsData', PL, infn('extractAllPELsData', rep('                        firstPELPrinted = True\n', '')), 'extractAllPELsData: flag never set (no separators)'),
    ('B27', 'B', 'extractAllPELsData', PL, infn('extractAllPELsData', rep('        if firstPELPrinted:\n            print()\n', '')), 'extractAllPELsData: no newline before the closing bracket'),
    ('B28', 'B', 'extractAllPELsData', PL, infn('extractAllPELsData', rep('parsePEL(stream, config, False)', 'parsePEL(stream, config, True)')), 'extractAllPELsData: exit on a bad header'),
    ('B29', 'B', 'extractAllPELsData', PL, infn('extractAllPELsData', rep('{e}", file=sys.stderr)', '{e}")')), 'extractAllPELsData: diagnostic on stdout'),
    ('B30', 'B', 'extractAllPELsData', PL, infn('extractAllPELsData', rep('                        if firstPELPrinted:\n                            print(",")\n                        print(json_string, end = "")\n',
                                                                          '                        print(json_string, end = "")\n                        if firstPELPrinted:\n                            print(",")\n')),
     'extractAllPELsData: separator after the document'),
    ('B31', 'B', 'extractAllPELsData', PL, rep('def prettyPrint(Mdata: str, desiredSpace: int = 34)', 'def prettyPrint(Mdata: str, desiredSpace: int = 30)'), 'prettyPrint: default column (what parsePEL aligns to)'),
    ('B32', 'B', 'extractAllPELsData', PL, infn('parsePEL', rep('prettyPrint(json.dumps(out, indent=4))', 'prettyPrint(json.dumps(out, indent=2))')), 'parsePEL: indent of the document'),
    ('B33', 'B', 'printPELCount', PL, infn('printPELCount', rep('count+= 1', 'count+= 2')), 'printPELCount: counts by two'),
    ('B34', 'B', 'printPELCount', PL, infn('printPELCount', rep('                if not considerPEL(uh, config):\n                    continue\n', '')), 'printPELCount: selection ignored'),
    ('B35', 'B', 'printPELCount', PL, infn('printPELCount', rep('Number of PELs found', 'Number of PELs')), 'printPELCount: key text'),
    ('B36', 'B', 'printPELCount', PL, infn('printPELCount', rep('                ret, ph = generatePH(stream, out)\n                if not ret:\n                    continue\n', '                ret, ph = generatePH(stream, out)\n')),
     'printPELCount: a wrong first section id becomes an exception'),
    ('B37', 'B', 'printPELCount', PL, infn('printPELCount', rep('generateUH(stream, ph.creatorID, out)', 'generateUH(stream, "", out)')), 'printPELCount: empty creator id'),
    ('B38', 'B', 'printPELCount', PL, infn('printPELCount', rep('                if not considerPEL(uh, config):', '                if considerPEL(uh, config):')), 'printPELCount: counts the unselected'),
    ('B39', 'B', 'printPELCount', PL, infn('printPELCount', rep('{e}", file=sys.stderr)', '{e}", file=sys.stderr)\n                count+= 1')), 'printPELCount: undecodable files counted'),
    ('B40', 'B', 'parsePelFromID', PL, infn('parsePelFromID', rep('if pelID not in file:', 'if pelID in file:')), 'parsePelFromID: test negated'),
    ('B41', 'B', 'parsePelFromID', PL, infn('parsePelFromID', rep('            foundID = True\n            break\n', '            foundID = True\n')), 'parsePelFromID: every matching file is printed'),
    ('B42', 'B', 'parsePelFromID', PL, infn('parsePelFromID', rep('"PEL not found"', '"PEL not Found"')), 'parsePelFromID: message text'),
    ('B43', 'B', 'parsePelFromID', PL, infn('parsePelFromID', rep('pelID = processId(config.pelID)', 'pelID = config.pelID')), 'parsePelFromID: id not processed'),
    ('B44', 'B', 'parsePelFromID', PL, infn('parsePelFromID', rep('            foundID = True\n', '')), 'parsePelFromID: "not found" also after a match'),
    ('B45', 'B', 'parsePelFromID', PL, infn('parsePelFromID', rep('config, False)', 'config, True)')), 'parsePelFromID: exit on a bad header'),
    ('B46', 'B', 'parsePelFromID', PL, infn('parsePelFromID', rep('processId(config.pelID)', 'processId(config.plid)')), 'parsePelFromID: another id member'),
    ('B47', 'B', 'dirParseAndPrintPELFile', PL, infn('parseAndPrintPELFile', rep('                if not config.hex:', '                if config.hex:')), 'parseAndPrintPELFile: hex test negated'),
    ('B48', 'B', 'dirParseAndPrintPELFile', PL, infn('parseAndPrintPELFile', rep('                return True', '                return False')), 'parseAndPrintPELFile: reports nothing printed'),
    ('B49', 'B', 'dirParseAndPrintPELFile', PL, infn('parseAndPrintPELFile', rep('                    print(json_string)        ', '                    print(json_string, end="")')), 'parseAndPrintPELFile: no final newline'),
    ('B50', 'B', 'parsePelFromBmcID', PL, infn('parsePelFromBmcID', rep('str(ph.obmcLogID) == config.bmcID', 'str(ph.obmcLogID) != config.bmcID')), 'parsePelFromBmcID: comparison'),
    ('B51', 'B', 'parsePelFromBmcID', PL, infn('parsePelFromBmcID', rep('                        foundID = True\n                        break\n', '                        foundID = True\n')), 'parsePelFromBmcID: walk continues after a hit'),
    ('B52', 'B', 'parsePelFromBmcID', PL, infn('parsePelFromBmcID', rep('                    if str(ph.obmcLogID) == config.bmcID:\n                        stream = DataStream(data, byte_order=\'big\', is_signed=False)\n',
                                                                         '                    if str(ph.obmcLogID) == config.bmcID:\n')), 'parsePelFromBmcID: the document is decoded from the moved stream'),
    ('B53', 'B', 'parsePelFromBmcID', PL, infn('parsePelFromBmcID', rep('                                print(json_string)', '                                print(json_string, end="")')), 'parsePelFromBmcID: no final newline'),
    ('B54', 'B', 'parsePelFromBmcID', PL, infn('parsePelFromBmcID', rep('ph.obmcLogID', 'ph.creatorID')), 'parsePelFromBmcID: another header field compared'),
    ('B55', 'B', 'parsePelFromBmcID', PL, infn('parsePelFromBmcID', rep("byte_order='big', is_signed=False)\n                    out", "byte_order='little', is_signed=False)\n                    out")), 'parsePelFromBmcID: little-endian stream'),
    ('B56', 'B', 'parsePelFromPLID', PL, infn('parsePelFromPLID', rep('"%08X"', '"%08x"')), 'parsePelFromPLID: lower-case comparison text'),
    ('B57', 'B', 'parsePelFromPLID', PL, infn('parsePelFromPLID', rep('if plid == "%08X"', 'if plid != "%08X"')), 'parsePelFromPLID: comparison'),
    ('B58', 'B', 'parsePelFromPLID', PL, infn('parsePelFromPLID', rep("summary['PLID']", "summary['SRC']")), 'parsePelFromPLID: another summary member'),
    ('B59', 'B', 'parsePelFromPLID', PL, infn('parsePelFromPLID', rep(HEXBRANCH, HEXBRANCH.replace('if config.hex:', 'if not config.hex:'))), 'parsePelFromPLID: hex test negated'),
    ('B60', 'B', 'parsePelFromPLID', PL, infn('parsePelFromPLID', rep("int(summary['PLID'], 16)", "int(summary['PLID'], 10)")), 'parsePelFromPLID: base 10'),
    ('B61', 'B', 'parsePelFromPLID', PL, infn('parsePelFromPLID', rep('            except Exception as e:', '            except:')), 'parsePelFromPLID: bare except (catches SystemExit)'),
    ('B62', 'B', 'parsePelFromPLID', PL, infn('parsePelFromPLID', rep('"%08X"', '"%06X"')), 'parsePelFromPLID: width of the comparison text'),
    ('B63', 'B', 'parsePelFromPLID', PL, infn('parsePelFromPLID', rep('    plid = processId(config.plid)\n', '    plid = processId(config.plid)\n    print("[")\n')), 'parsePelFromPLID: an extra line on stdout'),
    ('B64', 'B', 'parsePelFromSRCID', PL, infn('parsePelFromSRCID', rep('len(config.src) > 32', 'len(config.src) > 31')), 'parsePelFromSRCID: length limit'),
    ('B65', 'B', 'parsePelFromSRCID', PL, infn('parsePelFromSRCID', rep("config.src in summary['SRC']", "summary['SRC'] in config.src")), 'parsePelFromSRCID: containment the other way round'),
    ('B66', 'B', 'parsePelFromSRCID', PL, infn('parsePelFromSRCID', rep("summary['SRC'] not in src_exclude_file_data", "summary['SRC'] in src_exclude_file_data")), 'parsePelFromSRCID: exclusion negated'),
    ('B67', 'B', 'parsePelFromSRCID', PL, infn('parsePelFromSRCID', rep("    if config.src:\n        if len(config.src) > 32:\n            sys.exit('Invalid SRC length is provided!')\n", '')), 'parsePelFromSRCID: no length check'),
    ('B68', 'B', 'parsePelFromSRCID', PL, infn('parsePelFromSRCID', rep("config.src in summary['SRC']", "config.src in summary['PLID']")), 'parsePelFromSRCID: another summary member'),
    ('B69', 'B', 'parsePelFromSRCID', PL, infn('parsePelFromSRCID', rep("sys.exit('Invalid SRC length is provided!')", "print('Invalid SRC length is provided!')")), 'parsePelFromSRCID: message instead of exit'),
    ('B70', 'B', 'parsePelFromSRCID', PL, infn('parsePelFromSRCID', rep("if config.src and config.src in summary['SRC']:", "if config.src or config.src in summary['SRC']:")), 'parsePelFromSRCID: and became or'),
    ('B71', 'B', 'parsePelFromSRCID', PL, infn('parsePelFromSRCID', rep("                    if (config.srcExcludeFile):", "                    elif (config.srcExcludeFile):")), 'parsePelFromSRCID: exclusion only when --src did not match'),
    # ---------------- behaviour-changing: parsePELSummary itself
    ('S01', 'B', 'parsePELSummary', PL, infn('parsePELSummary', rep('["Error Details"]["Message"]', '["Error Details"]["Msg"]')), 'parsePELSummary: Message taken from the wrong key'),
    ('S02', 'B', 'parsePELSummary', PL, infn('parsePELSummary', seq(rep('    summary["PLID"] = ph.pLID\n', ''), rep('    summary = OrderedDict()\n', '    summary = OrderedDict()\n    summary["PLID"] = ph.pLID\n'))),
     'parsePELSummary: PLID stored before the loop (Message placed after PLID)'),
    ('S03', 'B', 'parsePELSummary', PL, infn('parsePELSummary', rep('["Error Details"]["Message"]\n            break\n', '["Error Details"]["Message"]\n')), 'parsePELSummary: break dropped (a later primary SRC overwrites)'),
    ('S04', 'B', 'parsePELSummary', PL, infn('parsePELSummary', rep('SectionID.primarySRC.value', 'SectionID.secondarySRC.value')), 'parsePELSummary: summary of a secondary SRC'),
    ('S05', 'B', 'parsePELSummary', PL, infn('parsePELSummary', rep('if "Error Details" in section_json', 'if "Error Details" not in section_json')), 'parsePELSummary: membership test negated'),
    ('S06', 'B', 'parsePELSummary', PL, infn('parsePELSummary', rep('summary["SRC"] =', 'summary["Src"] =')), 'parsePELSummary: key text'),
    ('S07', 'B', 'parsePELSummary', PL, infn('parsePELSummary', rep('out["User Header"]["Event Severity"]', 'out["User Header"]["Event Type"]')), 'parsePELSummary: another member of the user header'),
    ('S08', 'B', 'parsePELSummary', PL, infn('parsePELSummary', rep('range(2, ph.sectionCount)', 'range(1, ph.sectionCount)')), 'parsePELSummary: one more iteration'),
    ('S09', 'B', 'parsePELSummary', PL, infn('parsePELSummary', rep('    if not considerPEL(uh, config):\n        return "", ""\n', '')), 'parsePELSummary: selection ignored'),
    ('S10', 'B', 'parsePELSummary', PL, infn('parsePELSummary', rep('eid = ph.lEID', 'eid = ph.pLID')), 'parsePELSummary: the platform log id returned as entry id'),
    ('S11', 'B', 'parsePELSummary', PL, infn('parsePELSummary', rep('    summary["Commit Time"] = ph.commitTime\n', '')), 'parsePELSummary: a member dropped'),
    ('S12', 'B', 'parsePELSummary', PL, infn('parsePELSummary', rep('    ret, uh = generateUH(stream, ph.creatorID, out)\n    if ret is False:\n        return "", ""', '    ret, uh = generateUH(stream, ph.creatorID, out)\n    if ret is False:\n        return eid, ""')),
     'parsePELSummary: entry id returned for a bad user header'),
    ('S13', 'B', 'parsePELSummary', TY, rep('primarySRC = 0x5053', 'primarySRC = 0x5054'), 'pel_types: value of SectionID.primarySRC'),
    ('S14', 'B', 'parsePELSummary', PL, infn('parsePELSummary', rep('componentID, ph.creatorID, config)', 'componentID, "", config)')), 'parsePELSummary: empty creator id handed to sectionFun'),
    ('S15', 'B', 'parsePELSummary', PL, infn('parsePELSummary', rep('    summary["CreatorID"] = out["Private Header"]["Creator Subsystem"]\n    summary["Subsystem"] = out["User Header"]["Subsystem"]\n',
                                                                  '    summary["Subsystem"] = out["User Header"]["Subsystem"]\n    summary["CreatorID"] = out["Private Header"]["Creator Subsystem"]\n')),
     'parsePELSummary: two members in another order'),
    ('S16', 'B', 'parsePELSummary', PL, infn('parsePELSummary', rep('section_json["Primary SRC"]["Reference Code"]', 'section_json["Primary SRC"]["Valid Word Count"]')), 'parsePELSummary: SRC taken from another member'),
    ('S17', 'B', 'parsePELSummary', PL, infn('parsePELSummary', rep('out["Private Header"]["Created by"]', 'out["User Header"]["Created by"]')), 'parsePELSummary: CompID looked up in the user header (KeyError)'),
    # ---------------- behaviour-preserving
    ('SP1', 'P', 'parsePELSummary', PL, infn('parsePELSummary', seq(rep('section_json', 'sj', 5), rep('summary', 'table', 11))), 'parsePELSummary: locals renamed'),
    ('SP2', 'P', 'parsePELSummary', PL, infn('parsePELSummary', rep('    ret, ph = generatePH(stream, out)\n    if ret is False:', '    ret, ph = generatePH(stream, out)\n    if not ret:')), 'parsePELSummary: `ret is False` -> `not ret`'),
    ('SP3', 'P', 'parsePELSummary', PL, infn('parsePELSummary', rep('            summary["SRC"] = section_json["Primary SRC"]["Reference Code"]\n', '            doc = section_json["Primary SRC"]\n            summary["SRC"] = doc["Reference Code"]\n')),
     'parsePELSummary: temporary extracted'),
    ('SP4', 'P', 'parsePELSummary', PL, infn('parsePELSummary', rep('    eid = ph.lEID\n    ret, uh = generateUH(stream, ph.creatorID, out)\n    if ret is False:\n        return "", ""\n',
                                                                  '    ret, uh = generateUH(stream, ph.creatorID, out)\n    if ret is False:\n        return "", ""\n    eid = ph.lEID\n')), 'parsePELSummary: an independent statement moved'),
    ('SP5', 'P', 'parsePELSummary', PL, infn('parsePELSummary', rep('            if "Error Details" in section_json["Primary SRC"] :\n                summary["Message"] = section_json["Primary SRC"]["Error Details"]["Message"]\n            break\n',
                                                                  '            if not ("Error Details" in section_json["Primary SRC"]):\n                break\n            summary["Message"] = section_json["Primary SRC"]["Error Details"]["Message"]\n            break\n')),
     'parsePELSummary: the Message branch written with an early break'),
    ('P01', 'P', 'listOption', PL, infn('listOption', seq(rep('final_summary', 'acc', 3), rep('file_list', 'names', 2), rep(' file ', ' name '), rep(', file)', ', name)'))), 'listOption: locals renamed'),
    ('P02', 'P', 'listOption', PL, infn('listOption', rep('def listOption(path: str, config: Config):', 'def listOption(directory: str, cfg: Config) -> None:\n    """list the PELs"""\n    path = directory\n    config = cfg  # same object')),
     'listOption: parameters renamed, docstring, comment, return annotation, aliases'),
    ('P03', 'P', 'extractAndSummarizePEL', PL, infn('extractAndSummarizePEL', rep('print(f"Exception: No PEL parsed for {file}: {e}", file=sys.stderr)', 'print("Exception: No PEL parsed for %s: %s" % (file, e), file=sys.stderr)')),
     'extractAndSummarizePEL: f-string -> % formatting in the diagnostic'),
    ('P04', 'P', 'listOption', PL, infn('listOption', rep('        if eid :', '        if eid != "":')), 'listOption: `if eid` -> `if eid != ""`'),
    ('P05', 'P', 'listOption', PL, infn('listOption', rep('        if eid :', '        if len(eid) > 0:')), 'listOption: `if eid` -> `if len(eid) > 0`'),
    ('P06', 'P', 'listOption', PL, infn('listOption', rep('    if not config.hex:\n' + SUMMARY_PRINT, '    if config.hex:\n        pass\n    else:\n' + SUMMARY_PRINT)), 'listOption: `if not c: A` -> `if c: pass else: A`'),
    ('P07', 'P', 'listOption', PL, infn('listOption', rep('    root, file_list = getFileList(path, config.extension, config.rev)\n    final_summary = {}\n', '    final_summary = {}\n    root, file_list = getFileList(path, config.extension, config.rev)\n')),
     'listOption: two independent statements exchanged'),
    ('P08', 'P', 'listOption', PL, infn('listOption', rep(SUMMARY_PRINT, '        text = json.dumps(final_summary, indent=4)\n        aligned = prettyPrint(text, desiredSpace = 29)\n        print(aligned)')), 'listOption: temporaries extracted'),
    ('P09', 'P', 'listOption', PL, infn('listOption', rep('desiredSpace = 29', '29')), 'listOption: positional instead of keyword argument'),
    ('P10', 'P', 'getFileList', PL, infn('getFileList', rep('            if extension and extension != os.path.splitext(file)[1]:\n                continue\n            file_list.append(file)',
                                                            '            if not extension or extension == os.path.splitext(file)[1]:\n                file_list.append(file)')), 'getFileList: filter written positively'),
    ('P11', 'P', 'printPELCount', PL, infn('printPELCount', rep('count+= 1', 'count = count + 1')), 'printPELCount: += written out'),
    ('P12', 'P', 'printPELCount', PL, infn('printPELCount', rep('                if not ret:\n                    continue\n                ret, uh', '                if ret is False:\n                    continue\n                ret, uh')), 'printPELCount: `not ret` -> `ret is False`'),
    ('P13', 'P', 'extractAllPELsData', PL, infn('extractAllPELsData', rep('                if json_string:', '                if len(json_string) != 0:')), 'extractAllPELsData: `if s` -> `if len(s) != 0`'),
    ('P14', 'P', 'parsePelFromBmcID', PL, infn('parsePelFromBmcID', rep('if str(ph.obmcLogID) == config.bmcID:', 'if config.bmcID == str(ph.obmcLogID):')), 'parsePelFromBmcID: == with sides exchanged'),
    ('P15', 'P', 'parsePelFromPLID', PL, infn('parsePelFromPLID', rep('                    if plid == "%08X" % int(summary[\'PLID\'], 16):', '                    number = int(summary[\'PLID\'], 16)\n                    shown = "%08X" % number\n                    if plid == shown:')),
     'parsePelFromPLID: temporaries extracted'),
    ('P16', 'P', 'parsePelFromSRCID', PL, infn('parsePelFromSRCID', rep("                    if (config.srcExcludeFile):\n                        if summary['SRC'] not in src_exclude_file_data:\n",
                                                                         "                    if config.srcExcludeFile and summary['SRC'] not in src_exclude_file_data:\n                        if True:\n")), 'parsePelFromSRCID: nested ifs merged'),
    ('P17', 'P', 'parsePelFromPLID', PL, infn('parsePelFromPLID', rep(HEXBRANCH, HEXBRANCH_SWAPPED)), 'parsePelFromPLID: `if c: A else: B` -> `if not c: B else: A`'),
    ('P18', 'P', 'printPELInHexFormat', PL, infn('printPELInHexFormat', rep('        mv = memoryview(data)\n        hexdata = hexdump(mv)\n', '        hexdata = hexdump(memoryview(data))\n')), 'printPELInHexFormat: temporary inlined'),
    ('P19', 'P', 'dirParseAndPrintPELFile', PL, infn('parseAndPrintPELFile', rep('            _, json_string = parsePEL(', '            entry, json_string = parsePEL(')), 'parseAndPrintPELFile: `_` renamed'),
    ('P20', 'P', 'parsePelFromID', PL, infn('parsePelFromID', rep('            if pelID not in file:\n                continue\n            parseAndPrintPELFile(os.path.join(root, file), config, False)\n            foundID = True\n            break\n',
                                                                  '            if pelID in file:\n                parseAndPrintPELFile(os.path.join(root, file), config, False)\n                foundID = True\n                break\n')),
     'parsePelFromID: `if not c: continue; A` -> `if c: A`'),
    ('P21', 'P', 'extractAllPELsData', PL, infn('extractAllPELsData', rep('            print()\n', '            print("")\n')), 'extractAllPELsData: print() -> print("")'),
    ('P22', 'P', 'printPELInHexFormat', PL, infn('printPELInHexFormat', rep('hexdump(mv)', 'hexdump(mv, bytes_per_chunk=4)')), 'printPELInHexFormat: a default argument written out'),
    ('P23', 'P', 'parsePelFromSRCID', PL, infn('parsePelFromSRCID', rep('    if config.src:\n        if len(config.src) > 32:', '    if config.src and len(config.src) > 32:\n        if True:')), 'parsePelFromSRCID: nested ifs of the length check merged'),
    ('P24', 'P', 'extractAllPELsData', PL, infn('extractAllPELsData', rep('    if not config.hex:\n        if firstPELPrinted:\n            print()\n        print("]")\n',
                                                                          '    if config.hex:\n        return\n    if firstPELPrinted:\n        print()\n    print("]")\n')), 'extractAllPELsData: early return instead of a nested if'),
    ('P25', 'P', 'parsePelFromBmcID', PL, infn('parsePelFromBmcID', rep('                        if json_string:\n                            if not config.hex:\n                                print(json_string)\n                            else:\n                                printPELInHexFormat(data)\n',
                                                                         '                        if json_string and not config.hex:\n                            print(json_string)\n                        elif json_string:\n                            printPELInHexFormat(data)\n')),
     'parsePelFromBmcID: nested ifs flattened'),
    ('P26', 'P', 'printPELCount', PL, infn('printPELCount', rep('    print("{\\n    \\"Number of PELs found\\": "+str(count)+"\\n}")', '    print("{\\n    \\"Number of PELs found\\": %d\\n}" % count)')), 'printPELCount: concatenation -> % formatting'),
]


EXTRA_ENV = {}


def run(cmd, cwd, timeout=1800):
    env = dict(os.environ, VERIF_REPO=REPO, PYTHONDONTWRITEBYTECODE='1')
    env.update(EXTRA_ENV)
    r = subprocess.run(cmd, cwd=cwd, env=env, stdout=subprocess.PIPE, stderr=subprocess.STDOUT, text=True, timeout=timeout)
    return r.returncode, r.stdout


def restore():
    run(['git', 'checkout', '--', '.'], REPO)


def tie_theorems(mod):
    out = []
    for n, line in enumerate(open(os.path.join(LEAN, 'PelProps', mod + '.lean')), 1):
        m = re.match(r'\s*theorem\s+(\S+)', line)
        if m:
            out.append((n, m.group(1)))
    return out


def evaluate(target):
    """-> (translated?, proved?, detail)"""
    rc, out = run([PY, os.path.join(VERIF, 'harness', 'extract.py')], VERIF)
    if rc != 0:
        return None, None, 'extract.py failed: ' + out[-300:]
    unavailable = {}
    for l in out.split('\n'):
        if l.startswith('TRANSLATION-UNAVAILABLE '):
            nm, _, why = l[len('TRANSLATION-UNAVAILABLE '):].partition(' ')
            if nm.rstrip('?') in ALL:
                unavailable[nm.rstrip('?')] = why
    broken, ok = [], True
    for mod in MODS:
        rc, out = run(['lake', 'build', 'PelProps.' + mod], LEAN)
        if rc != 0:
            ok = False
            ths = tie_theorems(mod)
            found = False
            for m in re.finditer(r'%s\.lean:(\d+):\d+' % mod, out):
                ln = int(m.group(1))
                owner = None
                for st, nm in ths:
                    if st <= ln:
                        owner = nm
                if owner and owner not in broken:
                    broken.append(owner)
                    found = True
            if not found and not any(b.endswith('?') for b in broken):
                broken.append(mod + '?')
    others = [u for u in unavailable if u != target]
    detail = ''
    if target in unavailable:
        detail = unavailable[target]
    if others:
        detail += ' [also unavailable: %s]' % ', '.join(others)
    if broken:
        detail += ' broken: ' + ', '.join(broken)
    return target not in unavailable, ok, detail.strip()


def main():
    args = sys.argv[1:]
    sel = None
    if '-k' in args:
        sel = args[args.index('-k') + 1]
    rc, out = run(['git', 'status', '--porcelain'], REPO)
    if out.strip():
        sys.exit('the worktree %s is not clean:\n%s' % (REPO, out))
    rows = []
    bad = 0
    nnone = nnone_bad = nref = nref_bad = 0
    fmt = '%-4s %-1s %-22s %-11s %-7s %s'
    try:
        t, p, d = evaluate('-')
        print(fmt % ('id', 'k', 'function', 'translated', 'tie', 'verdict / description'))
        print(fmt % ('base', '-', '(all)', 'yes' if not d else 'NO', 'proved' if p else 'BROKEN', ('unexpected: ' + d) if d or not p else 'clean tree'))
        if d or not p:
            bad += 1
        for mid, kind, target, path, edit, desc in MUTANTS:
            if sel and sel not in mid and sel not in target:
                continue
            full = os.path.join(REPO, path)
            text = open(full, encoding='utf-8').read()
            try:
                new = edit(text)
            except RuntimeError as e:
                print(fmt % (mid, kind, target, '-', '-', 'MUTANT DOES NOT APPLY: %s' % e))
                bad += 1
                continue
            try:
                compile(new, full, 'exec')
            except SyntaxError as e:
                print(fmt % (mid, kind, target, '-', '-', 'MUTANT IS NOT PYTHON: %s' % e))
                bad += 1
                continue
            with open(full, 'w', encoding='utf-8') as f:
                f.write(new)
            try:
                t, p, d = evaluate(target)
            finally:
                restore()
            if t is None:
                verdict = 'ERROR ' + d
                bad += 1
            elif not t:
                verdict = 'ok (unavailable)' if kind == 'B' else 'acceptable (unavailable)'
            elif p:
                verdict = 'ok (still proved)' if kind == 'P' else '*** MISSED: behaviour change still proved ***'
                bad += kind == 'B'
            else:
                verdict = 'ok (tie broken)' if kind == 'B' else 'FALSE ALARM (tie broken on a harmless rewrite)'
            print(fmt % (mid, kind, target, 'yes' if t else 'UNAVAILABLE', ('proved' if p else 'BROKEN') if t else '-',
                         '%s | %s%s' % (verdict, desc, (' | ' + d) if d else '')))
            sys.stdout.flush()
            rows.append((mid, kind, t, p))
        # every generated definition withdrawn in turn (`none`): the Tie modules must still build (UNAVAILABLE is never "tie broken")
        nnone = nnone_bad = 0
        for i, name in enumerate(ALL + [','.join(ALL)]):
            mid = 'N%02d' % (i + 1)
            if sel and sel not in mid and sel not in name:
                continue
            EXTRA_ENV['VERIF_DIRMODES_NONE'] = name
            try:
                t, p, d = evaluate(name if ',' not in name else ALL[0])
            finally:
                EXTRA_ENV.pop('VERIF_DIRMODES_NONE', None)
            nnone += 1
            good = (t is False) and p
            nnone_bad += not good
            bad += not good
            print(fmt % (mid, 'N', name[:22], 'UNAVAILABLE' if t is False else 'yes?', 'builds' if p else 'BROKEN',
                         ('ok (definition none: Tie modules build)' if good else '*** definition none but the Tie modules do not build ***') + ((' | ' + d) if d and not good else '')))
            sys.stdout.flush()
        # the independent harmless refactorings (harmless/*/patch.diff, + the directories of VERIF_HARMLESS_DIRS): proved or unavailable, never broken
        nref = nref_bad = 0
        dirs = [os.path.join(VERIF, 'harmless')] + [x for x in os.environ.get('VERIF_HARMLESS_DIRS', '').split(':') if x]
        seen = set()
        for dd in dirs:
            if not os.path.isdir(dd):
                continue
            for name in sorted(os.listdir(dd)):
                pf = os.path.join(dd, name, 'patch.diff')
                if name in seen or not os.path.exists(pf):
                    continue
                seen.add(name)
                text = open(pf, encoding='utf-8', errors='replace').read()
                if not any(x in text for x in (PL, HD, TY)):
                    continue
                if sel and sel not in name:
                    continue
                rc, out = run(['git', 'apply', pf], REPO)
                if rc != 0:
                    print(fmt % (name, 'R', '(refactoring)', '-', '-', 'patch does not apply: ' + out.strip()[:80]))
                    restore()
                    continue
                try:
                    t, p, d = evaluate('-')
                finally:
                    restore()
                nref += 1
                nref_bad += not p
                bad += not p
                print(fmt % (name, 'R', '(refactoring)', 'see detail', 'builds' if p else 'BROKEN',
                             ('ok' if p else 'FALSE ALARM (tie broken on an independent harmless refactoring)') + ((' | ' + d) if d else '')))
                sys.stdout.flush()
    finally:
        restore()
        evaluate('-')
    print('definitions withdrawn: %d runs, %d with Tie modules that do not build' % (nnone, nnone_bad))
    print('independent harmless refactorings: %d applied, %d tie broken' % (nref, nref_bad))
    nb = [r for r in rows if r[1] == 'B']
    npp = [r for r in rows if r[1] == 'P']
    print('behaviour-changing: %d mutants, %d tie broken, %d unavailable, %d MISSED' % (
        len(nb), sum(1 for r in nb if r[2] and not r[3]), sum(1 for r in nb if not r[2]), sum(1 for r in nb if r[2] and r[3])))
    print('behaviour-preserving: %d rewrites, %d still proved, %d unavailable, %d tie broken' % (
        len(npp), sum(1 for r in npp if r[2] and r[3]), sum(1 for r in npp if not r[2]), sum(1 for r in npp if r[2] and not r[3])))
    sys.exit(1 if bad else 0)


if __name__ == '__main__':
    main()
