#!/venv/bin/python
"""
Self-test of the source tie of stream `iodrawer` (harness/trans_iodrawer.py, PelProps/TieC14|C15|C16|C20.lean).

Applies source MUTANTS to the repository worktree one at a time (string replacements, each pattern must occur exactly once),
runs harness/extract.py (regenerates lean/PelGen/GenIoDrawer.lean) and `lake build PelProps.Tie<Cxx>`, and prints a table

    mutant -> which definitions became UNAVAILABLE, which tie theorems no longer build

Expected: a behaviour-CHANGING mutant (B) is never "all translated and all ties proved"; a behaviour-PRESERVING rewrite (P) is
ideally still proved, acceptably UNAVAILABLE, rarely "tie broken".  The worktree is always restored (`git checkout -- .`).

usage: VERIF_REPO=/path/to/worktree tools/transtest_iodrawer.py [name-substring ...]
"""
import ast
import os
import re
import subprocess
import sys

VERIF = os.path.dirname(os.path.dirname(os.path.abspath(__file__)))
REPO = os.environ.get('VERIF_REPO', '/repo')
LEAN = os.path.join(VERIF, 'lean')
PY = '/venv/bin/python'
TIES = ['TieC14', 'TieC15', 'TieC16', 'TieC20']

UT, IL, TR, HL, HW = ('io_drawer/utils.py', 'io_drawer/ilog.py', 'io_drawer/trace.py', 'io_drawer/hlog.py', 'pel/hwdiags/parserdata.py')

# (name, kind, file, [(old, new), ...])
M = []


def B(name, f, *reps):
    M.append((name, 'B', f, list(reps)))


def P(name, f, *reps):
    M.append((name, 'P', f, list(reps)))


# ------------------------------------------------------------------------------------------------ behaviour-changing
B('ts: limit 0xFFFF -> 0xFFFE', UT, ('(timestamp >= 0xFFFF)', '(timestamp >= 0xFFFE)'))
B('ts: >= -> >', UT, ('(timestamp >= 0xFFFF)', '(timestamp > 0xFFFF)'))
B('ts: // 3600 -> // 360', UT, ('hh = timestamp // 3600', 'hh = timestamp // 360'))
B('ts: {mm:02d} -> {mm:2d}', UT, ('{mm:02d}', '{mm:2d}'))
B('ts: swapped mm and ss in the output', UT, ("{mm:02d}:{ss:02d}", "{ss:02d}:{mm:02d}"))
B('ts: dashes text changed', UT, ("return '--------'", "return '-------'"))
B('ts: ss computed from mm*6', UT, ('- (mm*60)', '- (mm*6)'))
B('ilog: ERROR_MASK constant', IL, ('ERROR_MASK = 0xF0000000', 'ERROR_MASK = 0xFF000000'))
B('ilog: REPORTED_VALUE constant', IL, ('REPORTED_VALUE = 0x00040000', 'REPORTED_VALUE = 0x00080000'))
B('ilog: reported: and -> or', IL, ('== ERROR_VALUE) and\n', '== ERROR_VALUE) or\n'))
B('ilog: reported: == -> != on the flag', IL, ('((pte & REPORTED_MASK) == REPORTED_VALUE))', '((pte & REPORTED_MASK) != REPORTED_VALUE))'))
B('ilog: matches clears ERROR_MASK instead', IL, ('pte &= ~REPORTED_MASK', 'pte &= ~ERROR_MASK'))
B('ilog: matches drops the clearing statement', IL, ('            pte &= ~REPORTED_MASK\n', ''))
B('ilog: matches returns True at the end', IL, ("                return True\n\n        return False", "                return True\n\n        return True"))
B('ilog: exact match on lower-case hex', IL, ("f'{pte:08X}'", "f'{pte:08x}'"))
B('ilog: exact match with width 6', IL, ("f'{pte:08X}'", "f'{pte:06X}'"))
B('ilog: is not None -> is None', IL, ('return match is not None', 'return match is None'))
B('ilog: __init__ keeps parameter 0', IL, ('if (p >= 1) and (p <= 4))', 'if (p >= 0) and (p <= 4))'))
B('ilog: __init__ compiles case-sensitively', IL, ('re.compile(re_pattern, re.IGNORECASE)', 're.compile(re_pattern)'))
B('ilog: __init__ swaps pattern and message members', IL,
  ('        self.pte_pattern = pte_pattern\n        self.message_format = message_format', '        self.pte_pattern = message_format\n        self.message_format = pte_pattern'))
B('ilog: get_message indexes p instead of p - 1', IL, ('pte_bytes[p - 1]', 'pte_bytes[p]'))
B('ilog: get_message suffix text', IL, ("' - PEL entry created'", "' - PEL created'"))
B('ilog: get_message suffix for non-reported', IL, ('        if self._is_reported_error_pte(pte):\n            message +=', '        if not self._is_reported_error_pte(pte):\n            message +='))
B('ilog: get_entry returns the last match', IL,
  ('        for entry in self.entries:\n            if entry.matches(pte):\n                return entry\n        return None',
   '        found = None\n        for entry in self.entries:\n            if entry.matches(pte):\n                found = entry\n        return found'))
B('ilog: parse: entry size constant 8 -> 4', IL, ('ILOG_ENTRY_SIZE = 8', 'ILOG_ENTRY_SIZE = 4'))
B('ilog: parse: timestamp and sequence swapped', IL,
  ('        timestamp = stream.get_int(2)\n        seq_num = stream.get_int(2)', '        seq_num = stream.get_int(2)\n        timestamp = stream.get_int(2)'))
B('ilog: parse: all-zero test with or', IL, ('(timestamp == 0) and (seq_num == 0)', '(timestamp == 0) or (seq_num == 0)'))
B('ilog: parse: Undefined -> Unknown', IL, ("message = 'Undefined'", "message = 'Unknown'"))
B('ilog: parse: seq shown with 2 digits', IL, ('{seq_num:04X}', '{seq_num:02X}'))
B('ilog: parse: heading text', IL, ("'hh:mm:ss seq  pppppppp description'", "'hh:mm:ss seq pppppppp description'"))
B('ilog: parse: zero entries end the loop (break)', IL, ('(pte == 0x00000000):\n            continue', '(pte == 0x00000000):\n            break'))
B('ilog: parse: loop never reads (hang)', IL, ('        pte = stream.get_int(4)\n', '        pte = 0\n'))
B('trace: partial match modulus', TR, ('((self.hash_value % 100000) == (hash_value % 100000))', '((self.hash_value % 10000) == (hash_value % 10000))'))
B('trace: partial match modulus on one side', TR, ('== (hash_value % 100000))', '== (hash_value % 1000000))'))
B('trace: partial match without the != test', TR, ('return ((self.hash_value != hash_value) and\n', 'return ((self.hash_value == self.hash_value) and\n'))
B('trace: is_match compares with !=', TR, ('return self.hash_value == hash_value', 'return self.hash_value != hash_value'))
B('trace: first partial match wins', TR, ('elif trace_string.is_partial_match(hash_value):', 'elif partial_match is None and trace_string.is_partial_match(hash_value):'))
B('trace: partial match returned at once', TR, ('                partial_match = trace_string\n', '                return trace_string\n'))
B('trace: branches reordered (partial before exact)', TR,
  ('            if trace_string.is_match(hash_value):\n                return trace_string\n            elif trace_string.is_partial_match(hash_value):\n                partial_match = trace_string',
   '            if trace_string.is_partial_match(hash_value):\n                partial_match = trace_string\n            elif trace_string.is_match(hash_value):\n                return trace_string'))
B('trace: __init__ swaps hash and nothing else (message into location)', TR,
  ('        self.message_format = message_format\n        self.location = location', '        self.message_format = location\n        self.location = message_format'))
B('trace: TYPE_FIELDBIN constant', TR, ('TYPE_FIELDBIN = 0x4644', 'TYPE_FIELDBIN = 0x4654'))
B('trace: MAX_ARGS 5 -> 4', TR, ('MAX_ARGS = 5', 'MAX_ARGS = 4'))
B('trace: get_args reads 2-byte words', TR, ('args.append(stream.get_int(4))', 'args.append(stream.get_int(2))'))
B('trace: get_args for binary traces too', TR, ('if (not self.is_binary_trace()) and (self.data is not None):', 'if (self.is_binary_trace()) and (self.data is not None):'))
B('trace: get_args continues instead of break', TR, ('                else:\n                    break\n', '                else:\n                    continue\n'))
B('trace: header size 32 -> 28', TR, ('    SIZE = 32\n', '    SIZE = 28\n'))
B('trace: header reads size and times_wrap swapped', TR,
  ('        self.size = stream.get_int(4)\n        self.times_wrap = stream.get_int(4)', '        self.times_wrap = stream.get_int(4)\n        self.size = stream.get_int(4)'))
B('trace: header comp 8 bytes + 8 reserved', TR, ('self.comp = stream.get_mem(12)\n        stream.inc_index(4) ', 'self.comp = stream.get_mem(8)\n        stream.inc_index(8) '))
B('trace: header strips blanks before NULs', TR, (".rstrip('\\0').rstrip(' ')", ".rstrip(' ').rstrip('\\0')"))
B('trace: header keeps non-ASCII bytes handling: strips with lstrip', TR, (".rstrip('\\0').rstrip(' ')", ".lstrip('\\0').rstrip(' ')"))
B('trace: header skips the reserved field read', TR, ('        stream.inc_index(4)         # Ignore 4 byte reserved field\n', ''))
B('trace: entry FIXED_SIZE 16 -> 12', TR, ('FIXED_SIZE = 16', 'FIXED_SIZE = 12'))
B('trace: entry MAX_DATA_LEN test >=', TR, ('if self.length > self.MAX_DATA_LEN:', 'if self.length >= self.MAX_DATA_LEN:'))
B('trace: entry MAX_DATA_LEN 1024 -> 1000', TR, ('MAX_DATA_LEN = 1024', 'MAX_DATA_LEN = 1000'))
B('trace: entry pad = length % 4', TR, ('pad_size = 4 - (self.length % 4)', 'pad_size = (self.length % 4)'))
B('trace: entry alignment 8', TR, ('if (self.length % 4) != 0:\n                pad_size = 4 - (self.length % 4)', 'if (self.length % 8) != 0:\n                pad_size = 8 - (self.length % 8)'))
B('trace: entry without the size check', TR, ('        if entry_size != (stream.index - start_index):\n            return False\n', ''))
B('trace: entry size check against the wrong base', TR, ('(stream.index - start_index)', '(stream.index)'))
B('trace: entry tag and length swapped', TR,
  ('        self.length = stream.get_int(2)\n        self.tag = stream.get_int(2)', '        self.tag = stream.get_int(2)\n        self.length = stream.get_int(2)'))
B('trace: entry line read as 2 bytes + skip', TR, ('        self.line = stream.get_int(4)\n', '        self.line = stream.get_int(2)\n        stream.inc_index(2)\n'))
B('trace: entry returns True where it should give up', TR, ('            if not stream.check_range(self.length):\n                return False', '            if not stream.check_range(self.length):\n                return True'))
B('hlog: value != 0 -> value > 1', HL, ('if value != 0:', 'if value > 1:'))
B('hlog: width size*2 -> size', HL, ('{field.size * 2}', '{field.size}'))
B('hlog: separator text', HL, ("{field.name}: 0x", "{field.name} = 0x"))
B('hlog: break -> continue', HL, ('            break\n', '            continue\n'))
B('hlog: heading dropped', HL, ("    lines.append('---------------------')\n", ''))
B('hlog: blank line and dump swapped', HL, ("    lines.extend(hexdump(data))\n    lines.append('')", "    lines.append('')\n    lines.extend(hexdump(data))"))
B('hw: node and attention slices swapped', HW, ('node_pos  = int(word_b[4:6], base=16)\n        attn_type = int(word_b[6:8], base=16)', 'node_pos  = int(word_b[6:8], base=16)\n        attn_type = int(word_b[4:6], base=16)'))
B('hw: chip position from 2 bytes of word b shifted', HW, ('chip_pos  = int(word_b[0:4], base=16)', 'chip_pos  = int(word_b[0:2], base=16)'))
B('hw: signature id from word b', HW, ('sig_id    =     word_c[0:4]', 'sig_id    =     word_b[0:4]'))
B('hw: base 16 -> base 10', HW, ('sig_bit   = int(word_c[6:8], base=16)', 'sig_bit   = int(word_c[6:8], base=10)'))
B('hw: key text Chip Desc', HW, ('out["Chip Desc"]', 'out["Chip desc"]'))
B('hw: members in another order', HW,
  ('        out["Chip Desc"] = self.get_chip_desc(model_ec, node_pos, chip_pos)\n\n        out["Signature"] = self.get_sig_desc(model_ec, sig_id, sig_inst,\n                                             sig_bit)\n',
   '        out["Signature"] = self.get_sig_desc(model_ec, sig_id, sig_inst,\n                                             sig_bit)\n\n        out["Chip Desc"] = self.get_chip_desc(model_ec, node_pos, chip_pos)\n'))
B('hw: node and chip arguments swapped in the call', HW, ('self.get_chip_desc(model_ec, node_pos, chip_pos)', 'self.get_chip_desc(model_ec, chip_pos, node_pos)'))
B('hw: get_signature without the check of word c', HW, ('        self._check_hex(word_c, 4)\n', ''))
B('hw: chip_desc default unknown -> Unknown', HW, ('chip_type = "unknown"', 'chip_type = "Unknown"'))
B('hw: chip_desc defaults crossed (type <- desc table)', HW, ('chip_type = self._data[model_ec]["model_ec"]["type"]', 'chip_type = self._data[model_ec]["model_ec"]["desc"]'))
B('hw: chip_desc chip width 2 -> 1', HW, ('self._check_int(chip_pos, 2)', 'self._check_int(chip_pos, 1)'))
B('hw: chip_desc format order', HW, ('"node %d %s %d (%s)" % (node_pos, chip_type, chip_pos, chip_desc)', '"node %d %s %d (%s)" % (chip_pos, chip_type, node_pos, chip_desc)'))
B('hw: chip_desc fallback not upper-cased', HW, ('chip_desc = model_ec.upper()', 'chip_desc = model_ec'))
B('hw: sig_desc fallback description', HW, ('sig_desc = ""', 'sig_desc = "?"'))
B('hw: sig_desc name from the description slot', HW, ('sig_name = self._data[model_ec]["signatures"][sig_id][0]', 'sig_name = self._data[model_ec]["registers"][sig_id][0]'))
B('hw: sig_desc without lower()', HW, ('        sig_id  = sig_id.lower()\n', ''))
B('hw: sig_desc brackets', HW, ('"%s(%d)[%s] %s"', '"%s[%d](%s) %s"'))
B('hw: attn_desc default', HW, ('            out = attn_type\n', '            out = model_ec\n'))
B('hw: attn_desc looks into signatures', HW, ('self._data[model_ec]["attn_types"][attn_type]', 'self._data[model_ec]["signatures"][attn_type]'))
B('hw: reg_data address lower-case', HW, ('"0x%08X" % reg_addr', '"0x%08x" % reg_addr'))
B('hw: reg_data default address 1', HW, ('            reg_addr = 0\n', '            reg_addr = 1\n'))
B('hw: reg_data id width 3 -> 2', HW, ('self._check_hex(reg_id,   3)', 'self._check_hex(reg_id,   2)'))
B('hw: check_int 8 bits -> 4 bits per byte', HW, ('ub = (1 << (8 * num_bytes)) - 1', 'ub = (1 << (4 * num_bytes)) - 1'))
B('hw: check_int upper bound exclusive', HW, ('assert lb <= data <= ub', 'assert lb <= data < ub'))
B('hw: check_int without - 1', HW, ('ub = (1 << (8 * num_bytes)) - 1', 'ub = (1 << (8 * num_bytes))'))

B('ilog: REPORTED_MASK redefined further down', IL, ('class PTETableEntry:', 'REPORTED_MASK = 0x00080000\n\n\nclass PTETableEntry:'))
B('ilog: matches mutates a member of the entry', IL, ('        # Check for an exact match\n        if self._is_exact_match(pte):', '        self.pte_pattern = self.pte_pattern\n        self.params = ()\n        if self._is_exact_match(pte):'))
B('trace: loop over the reversed list', TR, ('for trace_string in self.trace_strings:\n            if trace_string.is_match', 'for trace_string in reversed(self.trace_strings):\n            if trace_string.is_match'))
B('trace: get_args little endian', TR, ("stream = DataStream(self.data, byte_order='big', is_signed=False)\n            for i in", "stream = DataStream(self.data, byte_order='little', is_signed=False)\n            for i in"))
B('trace: is_match also records the hash (member write)', TR, ('        return self.hash_value == hash_value', '        same = self.hash_value == hash_value\n        self.hash_value = hash_value\n        return same'))
B('trace: TraceString.__init__ parameters reordered (calls unchanged)', TR, ('def __init__(self, hash_value: int, message_format: str, location: str):', 'def __init__(self, message_format: str, hash_value: int, location: str):'))
B('trace: entry reads an extra byte first', TR, ('        # Read the fixed size fields\n        self.tbh = stream.get_int(2)', '        # Read the fixed size fields\n        stream.inc_index(1)\n        self.tbh = stream.get_int(2)'))
B('trace: entry data assigned twice (second read)', TR, ('            self.data = stream.get_mem(self.length)\n', '            self.data = stream.get_mem(self.length)\n            self.data = self.data[1:]\n'))
B('hw: attention type read with one digit', HW, ('attn_type = int(word_b[6:8], base=16)', 'attn_type = int(word_b[7:8], base=16)'))

# ------------------------------------------------------------------------------------------------ behaviour-preserving
P('ts: locals renamed', UT, ('hh = timestamp // 3600', 'hours = timestamp // 3600'), ('mm = (timestamp - (hh*3600)) // 60', 'minutes = (timestamp - (hours*3600)) // 60'),
  ('ss = timestamp - (hh*3600) - (mm*60)', 'secs = timestamp - (hours*3600) - (minutes*60)'), ("f'{hh:2d}:{mm:02d}:{ss:02d}'", "f'{hours:2d}:{minutes:02d}:{secs:02d}'"))
P('ts: % formatting', UT, ("f'{hh:2d}:{mm:02d}:{ss:02d}'", "'%2d:%02d:%02d' % (hh, mm, ss)"))
P('ts: str.format', UT, ("f'{hh:2d}:{mm:02d}:{ss:02d}'", "'{:2d}:{:02d}:{:02d}'.format(hh, mm, ss)"))
P('ts: modulo arithmetic', UT, ('mm = (timestamp - (hh*3600)) // 60', 'mm = (timestamp % 3600) // 60'), ('ss = timestamp - (hh*3600) - (mm*60)', 'ss = timestamp % 60'))
P('ts: extracted temporary + comments + hints', UT, ('    mm = (timestamp - (hh*3600)) // 60\n    ss = timestamp - (hh*3600) - (mm*60)',
                                                      '    rem: int = timestamp - (hh*3600)  # seconds into the hour\n    mm = rem // 60\n    """minutes done"""\n    ss = rem - (mm*60)'))
P('ts: decimal limit, no parentheses', UT, ('if (timestamp < 0) or (timestamp >= 0xFFFF):', 'if timestamp < 0 or timestamp >= 65535:'))
P('ts: tests swapped (or is commutative here)', UT, ('if (timestamp < 0) or (timestamp >= 0xFFFF):', 'if (timestamp >= 0xFFFF) or (timestamp < 0):'))
P('ts: if/else instead of early return', UT, ("        return '--------'\n\n    hh =", "        return '--------'\n    else:\n        pass\n\n    hh ="))
P('ilog: reported via temporaries', IL, ('        return (((pte & ERROR_MASK) == ERROR_VALUE) and\n                ((pte & REPORTED_MASK) == REPORTED_VALUE))',
                                       '        is_error = (pte & ERROR_MASK) == ERROR_VALUE\n        is_reported = (pte & REPORTED_MASK) == REPORTED_VALUE\n        return is_error and is_reported'))
P('ilog: reported with operands of and swapped', IL, ('        return (((pte & ERROR_MASK) == ERROR_VALUE) and\n                ((pte & REPORTED_MASK) == REPORTED_VALUE))',
                                                     '        return (((pte & REPORTED_MASK) == REPORTED_VALUE) and\n                ((pte & ERROR_MASK) == ERROR_VALUE))'))
P('ilog: matches returns the last test directly', IL, ('            if self._is_exact_match(pte):\n                return True\n\n        return False', '            return self._is_exact_match(pte)\n\n        return False'))
P('ilog: matches with a renamed local', IL, ('            pte &= ~REPORTED_MASK\n            if self._is_exact_match(pte):', '            cleared = pte & ~REPORTED_MASK\n            if self._is_exact_match(cleared):'))
P('ilog: members renamed (pattern, regex)', IL, ('        self.pte_pattern = pte_pattern', '        self.pat = pte_pattern'), ('re_pattern = self.pte_pattern.replace', 're_pattern = self.pat.replace'),
  ('        self.pte_re = re.compile(re_pattern, re.IGNORECASE)', '        self.regex = re.compile(re_pattern, re.IGNORECASE)'), ('match = self.pte_re.fullmatch(hex_string)', 'match = self.regex.fullmatch(hex_string)'))
P('ilog: exact match without temporaries', IL, ("        hex_string = f'{pte:08X}'\n        match = self.pte_re.fullmatch(hex_string)\n        return match is not None", "        return self.pte_re.fullmatch('%08X' % pte) is not None"))
P('ilog: get_entry loop variable renamed', IL, ('        for entry in self.entries:\n            if entry.matches(pte):\n                return entry', '        for candidate in self.entries:\n            if candidate.matches(pte):\n                return candidate'))
P('ilog: get_message message built with +', IL, ("            message += ' - PEL entry created'", "            message = message + ' - PEL entry created'"))
P('ilog: parse: zero test without parentheses and hex', IL, ('if (timestamp == 0) and (seq_num == 0) and (pte == 0x00000000):', 'if timestamp == 0 and seq_num == 0 and pte == 0:'))
P('ilog: parse: line built with %', IL, ("f'{timestamp_str} {seq_num:04X} {pte:08X} {message}'", "'%s %04X %08X %s' % (timestamp_str, seq_num, pte, message)"))
P('ilog: parse: if/else instead of default + overwrite', IL,
  ("        message = 'Undefined'\n        entry = table.get_entry(pte)\n        if entry is not None:\n            message = entry.get_message(pte)",
   "        entry = table.get_entry(pte)\n        if entry is None:\n            message = 'Undefined'\n        else:\n            message = entry.get_message(pte)"))
P('trace: TraceString members renamed', TR, ('        self.hash_value = hash_value\n        self.message_format', '        self.hv = hash_value\n        self.message_format'),
  ('return self.hash_value == hash_value', 'return self.hv == hash_value'),
  ('return ((self.hash_value != hash_value) and\n                ((self.hash_value % 100000)', 'return ((self.hv != hash_value) and\n                ((self.hv % 100000)'))
P('trace: partial match operands of and swapped', TR, ('        return ((self.hash_value != hash_value) and\n                ((self.hash_value % 100000) == (hash_value % 100000)))',
                                                      '        return (((self.hash_value % 100000) == (hash_value % 100000)) and\n                (self.hash_value != hash_value))'))
P('trace: get_trace_string: else-if, renamed variables', TR,
  ('        partial_match = None\n        for trace_string in self.trace_strings:\n            if trace_string.is_match(hash_value):\n                return trace_string\n            elif trace_string.is_partial_match(hash_value):\n                partial_match = trace_string\n        return partial_match',
   '        best = None\n        for ts in self.trace_strings:\n            if ts.is_match(hash_value):\n                return ts\n            else:\n                if ts.is_partial_match(hash_value):\n                    best = ts\n        return best'))
P('trace: is_binary_trace via self.TYPE_FIELDBIN', TR, ('return self.tag == TraceEntry.TYPE_FIELDBIN', 'return self.tag == self.TYPE_FIELDBIN'))
P('trace: get_args: negated test first', TR, ('                if stream.check_range(4):\n                    args.append(stream.get_int(4))\n                else:\n                    break',
                                             '                if not stream.check_range(4):\n                    break\n                args.append(stream.get_int(4))'))
P('trace: get_args: loop variable _', TR, ('for i in range(self.MAX_ARGS):', 'for _ in range(TraceEntry.MAX_ARGS):'))
P('trace: header: members renamed', TR, ('        self.comp = None        # the buffer name', '        self.name = None        # the buffer name'), ('        self.comp = stream.get_mem(12)', '        self.name = stream.get_mem(12)'),
  ("        self.comp = str(self.comp, encoding='ascii', errors='ignore')\n        self.comp = self.comp.rstrip('\\0').rstrip(' ')", "        self.name = str(self.name, encoding='ascii', errors='ignore')\n        self.name = self.name.rstrip('\\0').rstrip(' ')"))
P('trace: header: conversion in one statement', TR, ("        self.comp = str(self.comp, encoding='ascii', errors='ignore')\n        self.comp = self.comp.rstrip('\\0').rstrip(' ')", "        self.comp = str(self.comp, encoding='ascii', errors='ignore').rstrip('\\0').rstrip(' ')"))
P('trace: entry: truthiness instead of comparisons', TR, ('if self.length == 0:', 'if not self.length:'), ('if (self.length % 4) != 0:', 'if self.length % 4:'))
P('trace: entry: final test returns the comparison', TR, ('        if entry_size != (stream.index - start_index):\n            return False\n\n        return True', '        if entry_size == (stream.index - start_index):\n            return True\n\n        return False'))
P('trace: entry: local renamed + comment', TR, ('        start_index = stream.index\n', '        begin = stream.index  # where the entry starts\n'), ('(stream.index - start_index)', '(stream.index - begin)'))
P('hlog: if value', HL, ('if value != 0:', 'if value:'))
P('hlog: % formatting with computed width', HL, ("f'{field.name}: 0x{value:0{field.size * 2}X}'", "f'{field.name}: 0x{value:0{2 * field.size}X}'"))
P('hlog: loop variable renamed', HL, ('    for field in fields:\n        if not stream.check_range(field.size):\n            break\n        value = stream.get_int(field.size)\n        if value != 0:\n            lines.append(f\'{field.name}: 0x{value:0{field.size * 2}X}\')',
                                     '    for fld in fields:\n        if not stream.check_range(fld.size):\n            break\n        v = stream.get_int(fld.size)\n        if v != 0:\n            lines.append(f\'{fld.name}: 0x{v:0{fld.size * 2}X}\')'))
P('hw: chip_desc as f-string', HW, ('return "node %d %s %d (%s)" % (node_pos, chip_type, chip_pos, chip_desc)', 'return f"node {node_pos} {chip_type} {chip_pos} ({chip_desc})"'))
P('hw: get_signature: independent statements reordered', HW, ('        chip_pos  = int(word_b[0:4], base=16)\n        node_pos  = int(word_b[4:6], base=16)\n        attn_type = int(word_b[6:8], base=16)',
                                                                '        attn_type = int(word_b[6:8], base=16)\n        node_pos  = int(word_b[4:6], base=16)\n        chip_pos  = int(word_b[0:4], base=16)'))
P('hw: get_signature: int(x, 16) positional, [:4]', HW, ('chip_pos  = int(word_b[0:4], base=16)', 'chip_pos  = int(word_b[:4], 16)'))
P('hw: get_signature: checks reordered', HW, ('        self._check_hex(word_a, 4)\n        self._check_hex(word_b, 4)', '        self._check_hex(word_b, 4)\n        self._check_hex(word_a, 4)'))
P('hw: _data member renamed everywhere', HW, ('*', 'self._data', 'self._chips'))
P('hw: signature id upper-cased before the call (the callee lower-cases it)', HW, ('sig_id    =     word_c[0:4]', 'sig_id    =     word_c[0:4].upper()'))
P('hw: sig_desc locals renamed', HW, ('        sig_bit = str(sig_bit)\n', '        bit_key = str(sig_bit)\n'), ('["signatures"][sig_id][1][sig_bit]', '["signatures"][sig_id][1][bit_key]'),
  ('return "%s(%d)[%s] %s" % (sig_name, sig_inst, sig_bit, sig_desc)', 'return "%s(%d)[%s] %s" % (sig_name, sig_inst, bit_key, sig_desc)'))
P('hw: reg_data: id text built with +', HW, ('reg_name = "id:%s inst:%s" % (reg_id.upper(), reg_inst)', 'reg_name = "id:" + reg_id.upper() + " inst:" + reg_inst'))
P('hw: check_int: bound without temporaries', HW, ('        lb = 0\n        ub = (1 << (8 * num_bytes)) - 1\n        assert lb <= data <= ub, "integer must in the range %d-%d" % (lb, ub)', '        assert 0 <= data <= (1 << (8 * num_bytes)) - 1, "integer out of range"'))
P('hw: check_int: strict bound', HW, ('        ub = (1 << (8 * num_bytes)) - 1\n        assert lb <= data <= ub', '        ub = (1 << (8 * num_bytes))\n        assert lb <= data < ub'))


def sh(cmd, cwd=None, env=None):
    r = subprocess.run(cmd, cwd=cwd, env=env, stdout=subprocess.PIPE, stderr=subprocess.STDOUT, text=True)
    return r.returncode, r.stdout


def restore():
    sh(['git', 'checkout', '--', '.'], cwd=REPO)


def theorem_at(tie, line, sub='PelProps'):
    """name of the theorem whose text contains the given line of PelProps/<tie>.lean"""
    name = '?'
    for i, l in enumerate(open(os.path.join(LEAN, sub, tie + '.lean')).read().split('\n'), 1):
        m = re.match(r'\s*theorem\s+(\S+)', l)
        if m and i <= line:
            name = m.group(1)
    return name


def evaluate():
    env = dict(os.environ, VERIF_REPO=REPO)
    rc, out = sh([PY, os.path.join(VERIF, 'harness', 'extract.py')], cwd=VERIF, env=env)
    if rc != 0:
        return None, ['extract.py failed: ' + out[-300:]]
    unav = [l.split(' ', 1)[1].split(' (')[0] + ' (' + l.split(' (', 1)[1][:70] for l in out.split('\n')
            if l.startswith('TRANSLATION-UNAVAILABLE ') and (l.split(' ')[1].startswith('io_') or l.split(' ')[1].startswith('hw_'))]
    broken = []
    for tie in TIES:
        rc, out = sh(['lake', 'build', 'PelProps.' + tie], cwd=LEAN)
        if rc != 0:
            names = []
            for m in re.finditer(r'error: (\w+)/(\w+)\.lean:(\d+):\d+', out):
                nm = theorem_at(m.group(2), int(m.group(3)), m.group(1))
                if m.group(2) != tie:
                    nm = '%s.%s (imported: the constant pins of the property itself)' % (m.group(2), nm)
                if nm not in names:
                    names.append(nm)
            broken.append('%s: %s' % (tie, ', '.join(names) or 'does not build'))
    return unav, broken


def main():
    only = sys.argv[1:]
    restore()
    rows = []
    try:
        for name, kind, f, reps in M:
            if only and not any(o in name for o in only):
                continue
            path = os.path.join(REPO, 'modules', f)
            src = open(path, encoding='utf-8').read()
            new = src
            bad = None
            for r in reps:
                if len(r) == 3:                      # ('*', old, new): every occurrence
                    if r[1] not in new:
                        bad = 'pattern does not occur: %r' % r[1][:50]
                        break
                    new = new.replace(r[1], r[2])
                    continue
                old, rep = r
                if new.count(old) != 1:
                    bad = 'pattern occurs %d times: %r' % (new.count(old), old[:50])
                    break
                new = new.replace(old, rep)
            if bad is None:
                try:
                    ast.parse(new)
                except SyntaxError as e:
                    bad = 'mutant is not valid Python: %s' % e
            if bad:
                rows.append((kind, name, 'MUTANT NOT APPLIED', bad))
                continue
            with open(path, 'w', encoding='utf-8') as fh:
                fh.write(new)
            try:
                unav, broken = evaluate()
            finally:
                restore()
            if unav is None:
                verdict = 'ERROR'
            elif broken:
                verdict = 'TIE BROKEN'
            elif unav:
                verdict = 'UNAVAILABLE'
            else:
                verdict = 'proved'
            detail = '; '.join(broken + (['untranslated: ' + ', '.join(unav)] if unav else []))
            rows.append((kind, name, verdict, detail))
            print('%s | %-62s | %-11s | %s' % (kind, name, verdict, detail), flush=True)
    finally:
        restore()
        unav, broken = evaluate()          # leave the generated file and the build in the state of the clean tree
    print()
    print('clean tree afterwards: untranslated=%s broken=%s' % (unav, broken))
    nb = [r for r in rows if r[0] == 'B']
    np_ = [r for r in rows if r[0] == 'P']
    print('behaviour-changing : %d mutants, %d tie broken, %d unavailable, %d PROVED (must be 0), %d not applied'
          % (len(nb), sum(r[2] == 'TIE BROKEN' for r in nb), sum(r[2] == 'UNAVAILABLE' for r in nb), sum(r[2] == 'proved' for r in nb),
             sum(r[2] == 'MUTANT NOT APPLIED' for r in nb)))
    print('behaviour-preserving: %d rewrites, %d proved, %d unavailable, %d tie broken, %d not applied'
          % (len(np_), sum(r[2] == 'proved' for r in np_), sum(r[2] == 'UNAVAILABLE' for r in np_), sum(r[2] == 'TIE BROKEN' for r in np_),
             sum(r[2] == 'MUTANT NOT APPLIED' for r in np_)))
    return 1 if any(r[2] in ('proved', 'ERROR', 'MUTANT NOT APPLIED') for r in nb) else 0


if __name__ == '__main__':
    sys.exit(main())
