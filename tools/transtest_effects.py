#!/venv/bin/python
"""
Self-test of the source-to-Lean tie of stream `effects` (harness/trans_effects.py, lean/PelProps/TieC11.lean + TieC12.lean).

Applies source MUTANTS one at a time to the repository worktree named by VERIF_REPO (never /repo), runs harness/extract.py
(regenerates lean/PelGen/GenEffects.lean from the mutated text) and `lake build` of the two tie modules, and prints

    mutant | kind | verdict | definitions that became `none` | tie modules that no longer build

verdict:  PROVED       every definition is still generated and every tie theorem is still proved
          UNAVAILABLE  the mutated function left the translatable subset (`none`); the ties that remain are proved
          BROKEN       a generated definition is no longer provably equal to the model (a tie module does not build)
Expected: a behaviour-CHANGING mutant is never PROVED; a behaviour-PRESERVING rewrite is ideally PROVED, acceptably
UNAVAILABLE, and should rarely be BROKEN.  The worktree is always restored (`git checkout -- .`), and the generated file is
regenerated from the clean tree at the end.

usage: VERIF_REPO=/tmp/work/T9/repo tools/transtest_effects.py [substring of mutant names …]
"""
import os
import re
import subprocess
import sys
import time

VERIF = os.path.dirname(os.path.dirname(os.path.abspath(__file__)))
REPO = os.environ.get('VERIF_REPO')
if not REPO or os.path.realpath(REPO) == '/repo':
    sys.exit('set VERIF_REPO to a scratch worktree (never /repo)')
PT = 'modules/pel/peltool/peltool.py'
TIES = ['TieC11', 'TieC12']
MINE = ('deletePELFromPELId', 'deleteAllPELs', 'parseAndPrintPELFile', 'parseAndWriteOutput')


def sub(old, new, count=1, path=PT):
    def f(files):
        t = files[path]
        if t.count(old) != count:
            raise RuntimeError('mutant does not apply: %r occurs %d times in %s' % (old[:60], t.count(old), path))
        files[path] = t.replace(old, new)
    return f


def in_func(name, fn, path=PT):
    """apply fn(text of the function) to `def name(...)` up to the next top-level def/class"""
    def f(files):
        t = files[path]
        m = re.search(r'^([ \t]*)def %s\(.*?(?=^\1(?:def|class) |\Z)' % re.escape(name), t, re.S | re.M)
        if not m:
            raise RuntimeError('no function %s' % name)
        body = fn(m.group(0))
        if body == m.group(0):
            raise RuntimeError('mutant does not change %s' % name)
        files[path] = t[:m.start()] + body + t[m.end():]
    return f


def fsub(name, old, new, count=1):
    def g(s):
        if s.count(old) != count:
            raise RuntimeError('mutant does not apply inside %s: %r occurs %d times' % (name, old[:60], s.count(old)))
        return s.replace(old, new)
    return in_func(name, g)


def rename(*pairs):
    def g(s):
        for a, b in pairs:
            s = re.sub(r'(?<![\.\w])%s\b(?!=)' % re.escape(a), b, s)
        return s
    return g


def seq(*fs):
    def f(files):
        for g in fs:
            g(files)
    return f


C, P = 'changing', 'preserving'
DEL, ALL, PRN, WRT = 'deletePELFromPELId', 'deleteAllPELs', 'parseAndPrintPELFile', 'parseAndWriteOutput'

DEL_LOOP = '''        for file in files:
            if pelID not in file:
                continue
            os.remove(os.path.join(root, file))
            foundID = True
            break
'''
ALL_LOOP = '''        for file in files:
            if not os.path.isfile(os.path.join(root, file)):
                continue
            os.remove(os.path.join(root, file))
'''
PRN_BODY = '''            if json_string:
                if not config.hex:
                    print(json_string)        
                else:
                    printPELInHexFormat(data)
                sys.stdout.flush()
                return True
'''
WRT_BODY = '''            if len(json_string) != 0:
                output_file = os.path.join(
                    output_dir, os.path.basename(file) + '.' + eid + '.json')

                with open(output_file, "w") as output:
                    output.writelines(json_string)

                # Only remove the original once the output file has been
                # completely written and closed without error.
                if delete_after_parsing:
                    os.remove(file)
            else:
                print(f"No PEL parsed for {file}", file=sys.stderr)
        except Exception as e:
            print(f"No PEL parsed for {file}: {e}", file=sys.stderr)
'''

MUTANTS = [
    # ------------------------------------------------------------------ deletePELFromPELId
    ('c-del-no-break', C, fsub(DEL, '            foundID = True\n            break\n', '            foundID = True\n')),
    ('c-del-test-inverted', C, fsub(DEL, 'if pelID not in file:', 'if pelID in file:')),
    ('c-del-found-not-set', C, fsub(DEL, '            foundID = True\n            break\n', '            break\n')),
    ('c-del-found-initially-true', C, fsub(DEL, 'foundID = False', 'foundID = True')),
    ('c-del-message', C, fsub(DEL, 'print("PEL not found")', 'print("PEL not found!")')),
    ('c-del-message-on-stderr', C, fsub(DEL, 'print("PEL not found")', 'print("PEL not found", file=sys.stderr)')),
    ('c-del-removes-other-name', C, fsub(DEL, 'os.remove(os.path.join(root, file))', 'os.remove(os.path.join(root, pelID))')),
    ('c-del-removes-bare-name', C, fsub(DEL, 'os.remove(os.path.join(root, file))', 'os.remove(file)')),
    ('c-del-no-processid', C, fsub(DEL, '    pelID = processId(pelID)\n', '')),
    ('c-del-raw-id-compared', C, fsub(DEL, '    pelID = processId(pelID)\n', '    wanted = processId(pelID)\n')),
    ('c-del-walks-subdirectories', C, fsub(DEL, '            break\n        # Only process top level directory\n        break\n',
                                           '            break\n')),
    ('c-del-report-inverted', C, fsub(DEL, 'if not foundID:', 'if foundID:')),
    ('c-del-walks-other-directory', C, fsub(DEL, 'os.walk(path)', 'os.walk(pelID)')),
    ('c-del-continue-instead-of-break', C, fsub(DEL, '            foundID = True\n            break\n', '            foundID = True\n            continue\n')),
    ('c-del-prefix-test', C, fsub(DEL, 'if pelID not in file:', 'if not file.startswith(pelID):')),
    # ------------------------------------------------------------------ deleteAllPELs
    ('c-all-no-isfile-guard', C, fsub(ALL, '            if not os.path.isfile(os.path.join(root, file)):\n                continue\n', '')),
    ('c-all-guard-inverted', C, fsub(ALL, 'if not os.path.isfile(os.path.join(root, file)):', 'if os.path.isfile(os.path.join(root, file)):')),
    ('c-all-only-first', C, fsub(ALL, '            os.remove(os.path.join(root, file))\n', '            os.remove(os.path.join(root, file))\n            break\n')),
    ('c-all-walks-subdirectories', C, fsub(ALL, '        # Only process top level directory\n        break\n', '')),
    ('c-all-isfile-of-bare-name', C, fsub(ALL, 'os.path.isfile(os.path.join(root, file))', 'os.path.isfile(file)')),
    ('c-all-removes-bare-name', C, fsub(ALL, 'os.remove(os.path.join(root, file))', 'os.remove(file)')),
    ('c-all-prints', C, fsub(ALL, '            os.remove(os.path.join(root, file))\n', '            os.remove(os.path.join(root, file))\n            print(file)\n')),
    ('c-all-nothing-removed', C, fsub(ALL, '            os.remove(os.path.join(root, file))\n', '            pass\n')),
    # ------------------------------------------------------------------ parseAndPrintPELFile
    ('c-print-no-flush', C, fsub(PRN, '                sys.stdout.flush()\n', '')),
    ('c-print-flush-first', C, fsub(PRN, PRN_BODY, '''            if json_string:
                sys.stdout.flush()
                if not config.hex:
                    print(json_string)
                else:
                    printPELInHexFormat(data)
                return True
''')),
    ('c-print-always-true', C, fsub(PRN, '    return False\n', '    return True\n')),
    ('c-print-true-before-flush-result', C, fsub(PRN, '        print(f"Exception: No PEL parsed for {file_path}: {e}", file=sys.stderr)\n',
                                                 '        print(f"Exception: No PEL parsed for {file_path}: {e}", file=sys.stderr)\n        return True\n')),
    ('c-print-hex-inverted', C, fsub(PRN, 'if not config.hex:', 'if config.hex:')),
    ('c-print-never-exits', C, fsub(PRN, 'parsePEL(stream, config, exit_on_error)', 'parsePEL(stream, config, False)')),
    ('c-print-always-exits', C, fsub(PRN, 'parsePEL(stream, config, exit_on_error)', 'parsePEL(stream, config, True)')),
    ('c-print-message', C, fsub(PRN, 'Exception: No PEL parsed for', 'Exception: no PEL parsed for')),
    ('c-print-diagnostic-on-stdout', C, fsub(PRN, '{e}", file=sys.stderr)', '{e}")')),
    ('c-print-test-inverted', C, fsub(PRN, 'if json_string:', 'if not json_string:')),
    ('c-print-little-endian', C, fsub(PRN, "byte_order='big'", "byte_order='little'")),
    ('c-print-twice', C, fsub(PRN, '                    print(json_string)        \n', '                    print(json_string)\n                    print(json_string)\n')),
    ('c-print-eid-printed', C, fsub(PRN, '_, json_string = parsePEL(', 'json_string, _ = parsePEL(')),
    ('c-print-flush-outside-try', C, fsub(PRN, PRN_BODY + '''    except Exception as e:
        print(f"Exception: No PEL parsed for {file_path}: {e}", file=sys.stderr)
    return False
''', '''            if json_string:
                if not config.hex:
                    print(json_string)
                else:
                    printPELInHexFormat(data)
                printed = True
            else:
                printed = False
    except Exception as e:
        print(f"Exception: No PEL parsed for {file_path}: {e}", file=sys.stderr)
        return False
    if printed:
        sys.stdout.flush()
    return printed
''')),
    ('c-print-removes-file', C, fsub(PRN, '                return True\n', '                os.remove(file_path)\n                return True\n')),
    # ------------------------------------------------------------------ parseAndWriteOutput
    ('c-json-remove-inside-with', C, fsub(WRT, '''                    output.writelines(json_string)

                # Only remove the original once the output file has been
                # completely written and closed without error.
                if delete_after_parsing:
                    os.remove(file)
''', '''                    output.writelines(json_string)
                    if delete_after_parsing:
                        os.remove(file)
''')),
    ('c-json-remove-before-write', C, fsub(WRT, '''                with open(output_file, "w") as output:
                    output.writelines(json_string)

                # Only remove the original once the output file has been
                # completely written and closed without error.
                if delete_after_parsing:
                    os.remove(file)
''', '''                if delete_after_parsing:
                    os.remove(file)
                with open(output_file, "w") as output:
                    output.writelines(json_string)
''')),
    ('c-json-remove-before-writelines', C, fsub(WRT, '''                    output.writelines(json_string)

                # Only remove the original once the output file has been
                # completely written and closed without error.
                if delete_after_parsing:
                    os.remove(file)
''', '''                    if delete_after_parsing:
                        os.remove(file)
                    output.writelines(json_string)
''')),
    ('c-json-remove-unconditional', C, fsub(WRT, '                if delete_after_parsing:\n                    os.remove(file)\n', '                os.remove(file)\n')),
    ('c-json-remove-negated', C, fsub(WRT, 'if delete_after_parsing:', 'if not delete_after_parsing:')),
    ('c-json-remove-when-nothing-parsed', C, fsub(WRT, '                print(f"No PEL parsed for {file}", file=sys.stderr)\n',
                                                  '                print(f"No PEL parsed for {file}", file=sys.stderr)\n                if delete_after_parsing:\n                    os.remove(file)\n')),
    ('c-json-remove-in-handler', C, fsub(WRT, '            print(f"No PEL parsed for {file}: {e}", file=sys.stderr)\n',
                                         '            print(f"No PEL parsed for {file}: {e}", file=sys.stderr)\n            if delete_after_parsing:\n                os.remove(file)\n')),
    ('c-json-remove-after-try', C, fsub(WRT, '''                if delete_after_parsing:
                    os.remove(file)
            else:
                print(f"No PEL parsed for {file}", file=sys.stderr)
        except Exception as e:
            print(f"No PEL parsed for {file}: {e}", file=sys.stderr)
''', '''            else:
                print(f"No PEL parsed for {file}", file=sys.stderr)
        except Exception as e:
            print(f"No PEL parsed for {file}: {e}", file=sys.stderr)
        if delete_after_parsing:
            os.remove(file)
''')),
    ('c-json-flag-set-inside-with', C, fsub(WRT, WRT_BODY, '''            written = False
            if len(json_string) != 0:
                output_file = os.path.join(
                    output_dir, os.path.basename(file) + '.' + eid + '.json')
                with open(output_file, "w") as output:
                    written = True
                    output.writelines(json_string)
            else:
                print(f"No PEL parsed for {file}", file=sys.stderr)
        except Exception as e:
            print(f"No PEL parsed for {file}: {e}", file=sys.stderr)
        if written and delete_after_parsing:
            os.remove(file)
''')),
    ('c-json-removes-output', C, fsub(WRT, 'os.remove(file)', 'os.remove(output_file)')),
    ('c-json-extension', C, fsub(WRT, "'.json'", "'.jsn'")),
    ('c-json-separator', C, fsub(WRT, "os.path.basename(file) + '.' + eid", "os.path.basename(file) + '_' + eid")),
    ('c-json-no-basename', C, fsub(WRT, 'os.path.basename(file)', 'file')),
    ('c-json-name-parts-swapped', C, fsub(WRT, "os.path.basename(file) + '.' + eid", "eid + '.' + os.path.basename(file)")),
    ('c-json-output-next-to-input', C, fsub(WRT, 'os.path.join(\n                    output_dir,', 'os.path.join(\n                    file,')),
    ('c-json-test-inverted', C, fsub(WRT, 'if len(json_string) != 0:', 'if len(json_string) == 0:')),
    ('c-json-diagnostic-on-stdout', C, fsub(WRT, 'print(f"No PEL parsed for {file}", file=sys.stderr)', 'print(f"No PEL parsed for {file}")')),
    ('c-json-no-diagnostic', C, fsub(WRT, '                print(f"No PEL parsed for {file}", file=sys.stderr)\n', '                pass\n')),
    ('c-json-message', C, fsub(WRT, 'print(f"No PEL parsed for {file}: {e}", file=sys.stderr)', 'print(f"No PEL parsed for {file} - {e}", file=sys.stderr)')),
    ('c-json-message-without-file', C, fsub(WRT, 'print(f"No PEL parsed for {file}", file=sys.stderr)', 'print("No PEL parsed", file=sys.stderr)')),
    ('c-json-append-mode', C, fsub(WRT, 'open(output_file, "w")', 'open(output_file, "a")')),
    ('c-json-exits-on-bad-header', C, fsub(WRT, 'parsePEL(stream, config, False)', 'parsePEL(stream, config, True)')),
    ('c-json-writes-eid', C, fsub(WRT, 'output.writelines(json_string)', 'output.writelines(eid)')),
    ('c-json-writes-twice', C, fsub(WRT, '                    output.writelines(json_string)\n', '                    output.writelines(json_string)\n                    output.writelines(json_string)\n')),
    ('c-json-nothing-written', C, fsub(WRT, '                    output.writelines(json_string)\n', '                    pass\n')),
    ('c-json-prints-document', C, fsub(WRT, '                    output.writelines(json_string)\n', '                    output.writelines(json_string)\n                print(json_string)\n')),
    ('c-json-try-narrowed', C, fsub(WRT, WRT_BODY, '''        except Exception as e:
            print(f"No PEL parsed for {file}: {e}", file=sys.stderr)
            return
        if len(json_string) != 0:
            output_file = os.path.join(
                output_dir, os.path.basename(file) + '.' + eid + '.json')
            with open(output_file, "w") as output:
                output.writelines(json_string)
            if delete_after_parsing:
                os.remove(file)
        else:
            print(f"No PEL parsed for {file}", file=sys.stderr)
''')),
    ('c-json-signed-stream', C, fsub(WRT, 'is_signed=False', 'is_signed=True')),

    # ------------------------------------------------------------------ behaviour-preserving rewrites
    ('p-del-locals-renamed', P, in_func(DEL, rename(('foundID', 'found'), ('file', 'name'), ('root', 'top'), ('files', 'names')))),
    ('p-del-params-renamed', P, in_func(DEL, rename(('path', 'directory'), ('pelID', 'wanted')))),
    ('p-del-positive-test', P, fsub(DEL, DEL_LOOP, '''        for file in files:
            if pelID in file:
                os.remove(os.path.join(root, file))
                foundID = True
                break
''')),
    ('p-del-flag-before-remove', P, fsub(DEL, '            os.remove(os.path.join(root, file))\n            foundID = True\n',
                                         '            foundID = True\n            os.remove(os.path.join(root, file))\n')),
    ('p-del-temporary-path', P, fsub(DEL, '            os.remove(os.path.join(root, file))\n',
                                     '            target = os.path.join(root, file)\n            os.remove(target)\n')),
    ('p-del-fresh-id-local', P, in_func(DEL, lambda s: s.replace('    pelID = processId(pelID)\n', '    wanted = processId(pelID)\n')
                                        .replace('if pelID not in file:', 'if wanted not in file:'))),
    ('p-del-comments-hints', P, fsub(DEL, '    foundID = False\n    root = ""\n', '    # nothing found so far\n    foundID: bool = False\n    root: str = ""\n    """walk"""\n')),
    ('p-del-no-root-initialisation', P, fsub(DEL, '    root = ""\n', '')),
    ('p-del-else-branch', P, fsub(DEL, '    if not foundID:\n        print("PEL not found")\n', '    if foundID:\n        pass\n    else:\n        print("PEL not found")\n')),
    ('p-del-message-format', P, fsub(DEL, 'print("PEL not found")', 'print("PEL %s" % "not found")')),
    ('p-del-path-from-parameter', P, fsub(DEL, 'os.remove(os.path.join(root, file))', 'os.remove(os.path.join(path, file))')),
    ('p-all-positive-test', P, fsub(ALL, ALL_LOOP, '''        for file in files:
            if os.path.isfile(os.path.join(root, file)):
                os.remove(os.path.join(root, file))
''')),
    ('p-all-temporary-path', P, fsub(ALL, ALL_LOOP, '''        for file in files:
            full = os.path.join(root, file)
            if not os.path.isfile(full):
                continue
            os.remove(full)
''')),
    ('p-all-locals-renamed', P, in_func(ALL, rename(('file', 'entry'), ('root', 'top'), ('files', 'entries'), ('path', 'where')))),
    ('p-all-explicit-continue', P, fsub(ALL, '            os.remove(os.path.join(root, file))\n', '            os.remove(os.path.join(root, file))\n            continue\n')),
    ('p-print-locals-renamed', P, in_func(PRN, rename(('json_string', 'text'), ('data', 'raw'), ('stream', 'ds'), ('fd', 'handle'), ('e', 'err'),
                                                      ('file_path', 'name'), ('config', 'cfg'), ('exit_on_error', 'strict')))),
    ('p-print-percent-message', P, fsub(PRN, 'print(f"Exception: No PEL parsed for {file_path}: {e}", file=sys.stderr)',
                                        'print("Exception: No PEL parsed for %s: %s" % (file_path, e), file=sys.stderr)')),
    ('p-print-format-message', P, fsub(PRN, 'print(f"Exception: No PEL parsed for {file_path}: {e}", file=sys.stderr)',
                                       'print("Exception: No PEL parsed for {}: {}".format(file_path, e), file=sys.stderr)')),
    ('p-print-length-test', P, fsub(PRN, 'if json_string:', 'if len(json_string) != 0:')),
    ('p-print-hex-first', P, fsub(PRN, '''                if not config.hex:
                    print(json_string)        
                else:
                    printPELInHexFormat(data)
''', '''                if config.hex:
                    printPELInHexFormat(data)
                else:
                    print(json_string)
''')),
    ('p-print-flush-in-both-branches', P, fsub(PRN, '''                    print(json_string)        
                else:
                    printPELInHexFormat(data)
                sys.stdout.flush()
''', '''                    print(json_string)
                    sys.stdout.flush()
                else:
                    printPELInHexFormat(data)
                    sys.stdout.flush()
''')),
    ('p-print-final-return-dropped', P, fsub(PRN, '        print(f"Exception: No PEL parsed for {file_path}: {e}", file=sys.stderr)\n    return False\n',
                                             '        print(f"Exception: No PEL parsed for {file_path}: {e}", file=sys.stderr)\n')),
    ('p-print-return-false-in-handler', P, fsub(PRN, '        print(f"Exception: No PEL parsed for {file_path}: {e}", file=sys.stderr)\n',
                                                '        print(f"Exception: No PEL parsed for {file_path}: {e}", file=sys.stderr)\n        return False\n')),
    ('p-print-explicit-else', P, fsub(PRN, '                return True\n', '                return True\n            else:\n                return False\n')),
    ('p-print-stdout-named', P, fsub(PRN, 'print(json_string)        ', 'print(json_string, file=sys.stdout)')),
    ('p-print-stream-inline', P, in_func(PRN, lambda s: s.replace("            stream = DataStream(data, byte_order='big', is_signed=False)\n", '')
                                         .replace('parsePEL(stream, config, exit_on_error)', "parsePEL(DataStream(data, byte_order='big', is_signed=False), config, exit_on_error)"))),
    ('p-json-truth-test', P, fsub(WRT, 'if len(json_string) != 0:', 'if json_string:')),
    ('p-json-fstring-name', P, fsub(WRT, "os.path.basename(file) + '.' + eid + '.json'", "f\"{os.path.basename(file)}.{eid}.json\"")),
    ('p-json-temporary-base', P, fsub(WRT, '''                output_file = os.path.join(
                    output_dir, os.path.basename(file) + '.' + eid + '.json')
''', '''                base = os.path.basename(file)
                leaf = base + '.' + eid + '.json'
                output_file = os.path.join(output_dir, leaf)
''')),
    ('p-json-locals-renamed', P, in_func(WRT, rename(('json_string', 'document'), ('output_file', 'target'), ('output', 'out'), ('eid', 'entry'),
                                                     ('data', 'raw'), ('stream', 'ds'), ('fd', 'src'), ('e', 'err'), ('file', 'pel'),
                                                     ('output_dir', 'where'), ('delete_after_parsing', 'clean'), ('config', 'cfg')))),
    ('p-json-negated-branches', P, fsub(WRT, '''                if delete_after_parsing:
                    os.remove(file)
''', '''                if not delete_after_parsing:
                    pass
                else:
                    os.remove(file)
''')),
    ('p-json-else-first', P, fsub(WRT, WRT_BODY, '''            if len(json_string) == 0:
                print(f"No PEL parsed for {file}", file=sys.stderr)
            else:
                output_file = os.path.join(
                    output_dir, os.path.basename(file) + '.' + eid + '.json')
                with open(output_file, "w") as output:
                    output.writelines(json_string)
                if delete_after_parsing:
                    os.remove(file)
        except Exception as e:
            print(f"No PEL parsed for {file}: {e}", file=sys.stderr)
''')),
    ('p-json-flag-after-complete-write', P, fsub(WRT, '''                with open(output_file, "w") as output:
                    output.writelines(json_string)

                # Only remove the original once the output file has been
                # completely written and closed without error.
                if delete_after_parsing:
                    os.remove(file)
''', '''                written = False
                with open(output_file, "w") as output:
                    output.writelines(json_string)
                    written = True
                if written and delete_after_parsing:
                    os.remove(file)
''')),
    ('p-json-percent-messages', P, seq(fsub(WRT, 'print(f"No PEL parsed for {file}", file=sys.stderr)', 'print("No PEL parsed for %s" % file, file=sys.stderr)'),
                                       fsub(WRT, 'print(f"No PEL parsed for {file}: {e}", file=sys.stderr)', 'print("No PEL parsed for " + file + ": %s" % e, file=sys.stderr)'))),
    ('p-json-comments-hints', P, fsub(WRT, '        data = fd.read()\n', '        # the whole file\n        data: bytes = fd.read()\n        """decode"""\n')),
    ('p-json-early-return', P, fsub(WRT, WRT_BODY, '''            if len(json_string) == 0:
                print(f"No PEL parsed for {file}", file=sys.stderr)
                return
            output_file = os.path.join(
                output_dir, os.path.basename(file) + '.' + eid + '.json')
            with open(output_file, "w") as output:
                output.writelines(json_string)
            if delete_after_parsing:
                os.remove(file)
        except Exception as e:
            print(f"No PEL parsed for {file}: {e}", file=sys.stderr)
''')),
]


def run(cmd, cwd=None, env=None):
    r = subprocess.run(cmd, cwd=cwd, env=env, stdout=subprocess.PIPE, stderr=subprocess.STDOUT, text=True)
    return r.returncode, r.stdout


def restore():
    run(['git', 'checkout', '--', '.'], cwd=REPO)


def evaluate():
    env = dict(os.environ, VERIF_REPO=REPO)
    rc, out = run(['/venv/bin/python', os.path.join(VERIF, 'harness', 'extract.py')], cwd=VERIF, env=env)
    if rc != 0:
        return 'EXTRACT-FAILED', [out[-300:]], []
    una = [l.split(' ', 1)[1] for l in out.split('\n') if l.startswith('TRANSLATION-UNAVAILABLE ')]
    rc, out = run(['lake', 'build'] + ['PelProps.' + t for t in TIES], cwd=os.path.join(VERIF, 'lean'))
    broken = []
    if rc != 0:
        broken = sorted(set(re.findall(r'^- PelProps\.(Tie\w+)', out, re.M)))
        if not broken:
            broken = ['build failed: ' + out[-300:]]
    verdict = 'BROKEN' if broken else ('UNAVAILABLE' if una else 'PROVED')
    return verdict, una, broken


def main():
    sel = sys.argv[1:]
    rc, out = run(['git', 'status', '--porcelain'], cwd=REPO)
    if out.strip():
        sys.exit('the worktree %s is not clean:\n%s' % (REPO, out))
    rows = []
    try:
        v, una, broken = evaluate()
        rows.append(('(unchanged tree)', '-', v, una, broken, 0.0))
        print('%-42s %-10s %-12s %s %s' % rows[-1][:5], flush=True)
        for name, kind, mut in MUTANTS:
            if sel and not any(x in name for x in sel):
                continue
            files = {PT: open(os.path.join(REPO, PT), encoding='utf-8').read()}
            before = dict(files)
            t0 = time.time()
            try:
                mut(files)
                for p in files:
                    compile(files[p], p, 'exec')            # a mutant must at least be valid Python
                    if files[p] != before[p]:
                        with open(os.path.join(REPO, p), 'w', encoding='utf-8') as f:
                            f.write(files[p])
                v, una, broken = evaluate()
            except (RuntimeError, SyntaxError) as e:
                v, una, broken = 'MUTANT-ERROR', [str(e)], []
            finally:
                restore()
            rows.append((name, kind, v, una, broken, time.time() - t0))
            print('%-42s %-10s %-12s %s %s' % (name, kind, v, '; '.join(u.split(' ')[0] + ' ' + u.split(' ', 1)[1][:90] for u in una),
                                               ' '.join(broken)), flush=True)
    finally:
        restore()
        evaluate()
    print()
    print('| mutant | kind | verdict | not translated (`none`) | tie modules broken |')
    print('|---|---|---|---|---|')
    for name, kind, v, una, broken, _ in rows:
        print('| %s | %s | %s | %s | %s |' % (name, kind, v, ', '.join(u.split(' ')[0] for u in una) or '-', ' '.join(broken) or '-'))
    bad = [r for r in rows if r[1] == C and r[2] == 'PROVED']
    errs = [r for r in rows if r[2] in ('MUTANT-ERROR', 'EXTRACT-FAILED')]
    pres = [r for r in rows if r[1] == P]
    print()
    print('behaviour-changing mutants: %d, of which PROVED (must be 0): %d' % (len([r for r in rows if r[1] == C]), len(bad)))
    print('behaviour-preserving rewrites: %d — PROVED %d, UNAVAILABLE %d, BROKEN %d' % (
        len(pres), len([r for r in pres if r[2] == 'PROVED']), len([r for r in pres if r[2] == 'UNAVAILABLE']),
        len([r for r in pres if r[2] == 'BROKEN'])))
    if errs:
        print('mutants that did not apply: ' + ', '.join(r[0] for r in errs))
    ok = not bad and not errs and rows[0][2] == 'PROVED'
    print('SELF-TEST ' + ('OK' if ok else 'FAILED'))
    return 0 if ok else 1


if __name__ == '__main__':
    sys.exit(main())
