#!/bin/bash
# tools/tienone.sh: self-test of the source ties -- with EVERY regenerated definition withdrawn (`none`), every Tie module must still build
# (a function that leaves the translatable subset must never look like a broken proof).  Restores the generated files afterwards.
here=$(cd "$(dirname "$0")/.." && pwd)
cd $here
VERIF_TRANS_FORCE_NONE=1 VERIF_TRANS_NOBUILD=1 /venv/bin/python harness/extract.py > /dev/null 2>&1
cd lean
rc=0
for f in PelProps/Tie*.lean; do
  m=PelProps.$(basename $f .lean)
  if lake build $m > /tmp/tienone.$$ 2>&1; then echo "ok     $m"; else echo "BROKEN $m: $(grep -m1 'error' /tmp/tienone.$$)"; rc=1; fi
done
rm -f /tmp/tienone.$$
cd $here
/venv/bin/python harness/extract.py > /dev/null 2>&1
(cd lean && lake build PelGen > /dev/null 2>&1)
exit $rc
