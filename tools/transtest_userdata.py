#!/venv/bin/python
"""
Self-test of the source tie of the byte reader and the user-data sections
(harness/trans_userdata.py, lean/PelProps/TieC05.lean, lean/PelProps/TieC04.lean).

Applies source MUTANTS one at a time to the repository worktree named by VERIF_REPO (never /repo), regenerates
lean/PelGen/GenUserData.lean with harness/extract.py, builds PelProps.TieC05 and PelProps.TieC04 and prints a table

    mutant | kind | definitions concerned | translated? | tie proved? | verdict

kind B = behaviour-changing (expected: tie BROKEN or translation UNAVAILABLE, never proved),
kind P = behaviour-preserving (ideally still proved, UNAVAILABLE acceptable, BROKEN reported).
The worktree is always restored (`git checkout -- .`) and the generated file regenerated from the clean tree.

    VERIF_REPO=/tmp/work/T5/repo tools/transtest_userdata.py [-k substring]
"""
import os
import re
import subprocess
import sys

VERIF = os.path.dirname(os.path.dirname(os.path.abspath(__file__)))
REPO = os.environ.get('VERIF_REPO')
if not REPO or os.path.realpath(REPO) == '/repo':
    sys.exit('set VERIF_REPO to a scratch worktree (never /repo)')
PY = '/venv/bin/python'
LEAN = os.path.join(VERIF, 'lean')
TIES = ['TieC05', 'TieC04']

DS = 'modules/pel/datastream.py'
PT = 'modules/pel/peltool/peltool.py'
UD = 'modules/pel/peltool/user_data.py'
ED = 'modules/pel/peltool/ext_user_data.py'
PU = 'modules/pel/peltool/parse_user_data.py'
HD = 'modules/pel/hexdump.py'

ALL_DS = 'dsCheckRange dsIncIndex dsGetMem dsGetInt'


def rep(old, new, count=1):
    def f(text):
        if text.count(old) != count:
            raise RuntimeError('pattern %r occurs %d times, expected %d' % (old, text.count(old), count))
        return text.replace(old, new)
    return f


def rex(pat, new, count=None):
    def f(text):
        out, n = re.subn(pat, new, text)
        if n == 0 or (count is not None and n != count):
            raise RuntimeError('pattern %r matched %d times' % (pat, n))
        return out
    return f


def seq(*fs):
    def f(text):
        for g in fs:
            text = g(text)
        return text
    return f


def nth(old, new, k):
    """replace the k-th (0-based) occurrence"""
    def f(text):
        parts = text.split(old)
        if len(parts) <= k + 1:
            raise RuntimeError('pattern %r has no occurrence %d' % (old, k))
        return old.join(parts[:k + 1]) + new + old.join(parts[k + 1:])
    return f


RANGE_CHECK = '        if not self.check_range(num_bytes):\n            raise AssertionError("range check failure")\n'
TEXT_LOOP_OLD = """            for ch in bytes.decode(self.data).strip().rstrip('\\x00'):
                if ch != '\\n':
                    if ord(ch) < ord(' ') or ord(ch) > ord('~'):
                        ch = '.'
                    line += ch
                else:
                    lines.append(line)
                    line = ''

            if line != '':
                lines.append(line)

            return json.dumps(lines)"""

# (id, kind, generated definitions concerned, file, edit, description)
MUTANTS = [
    # ================= behaviour-changing: pel/datastream.py
    ('B01', 'B', 'dsCheckRange', DS, rep('        if not 0 < num_bytes:\n            raise AssertionError("must provide a positive, non-zero integer")\n',
                                         '        assert 0 < num_bytes, "must provide a positive, non-zero integer"\n'),
     'check_range: the explicit raise written as an assert statement (gone under python -O)'),
    ('B02', 'B', 'dsGetMem', DS, nth(RANGE_CHECK, '        assert self.check_range(num_bytes), "range check failure"\n', 1),
     'get_mem: the range check written as an assert statement'),
    ('B03', 'B', 'dsCheckRange', DS, rep('if not 0 < num_bytes:', 'if not 0 <= num_bytes:'), 'check_range: a count of 0 is accepted'),
    ('B04', 'B', 'dsCheckRange', DS, rep('self.index + num_bytes <= self.size', 'self.index + num_bytes < self.size'), 'check_range: the last byte cannot be read'),
    ('B05', 'B', 'dsCheckRange', DS, rep('self.index + num_bytes <= self.size', 'self.index + num_bytes <= self.size + 1'), 'check_range: one byte past the end is allowed'),
    ('B06', 'B', 'dsGetMem', DS, nth('raise AssertionError("range check failure")', 'raise AssertionError("range check failed")', 1), 'get_mem: message of the range check'),
    ('B07', 'B', 'dsIncIndex', DS, rep('self.index += num_bytes', 'self.index += num_bytes + 1'), 'inc_index: cursor advanced one byte too far'),
    ('B08', 'B', 'dsGetMem', DS, rep('self.data[self.index: self.index + num_bytes]', 'self.data[self.index: self.index + num_bytes - 1]'), 'get_mem: slice one byte short'),
    ('B09', 'B', 'dsGetMem', DS, rep('        o_mv = self.data[self.index: self.index + num_bytes]\n        self.inc_index(num_bytes)\n',
                                     '        self.inc_index(num_bytes)\n        o_mv = self.data[self.index: self.index + num_bytes]\n'), 'get_mem: cursor moved before the slice is taken'),
    ('B10', 'B', 'dsGetMem', DS, rep('        self.inc_index(num_bytes)\n        return o_mv', '        return o_mv'), 'get_mem: cursor not advanced (statement dropped)'),
    ('B11', 'B', 'dsInit', DS, rep('self.index = 0', 'self.index = 1'), '__init__: cursor starts at 1'),
    ('B12', 'B', 'dsInit', DS, rep('self.size = len(data)', 'self.size = len(data) - 1'), '__init__: size one short'),
    ('B13', 'B', 'dsGetInt', DS, rep('byteorder=byte_order', "byteorder='little'"), 'get_int: always little-endian'),
    ('B14', 'B', 'dsGetInt', DS, rep('signed=is_signed', 'signed=True'), 'get_int: always signed'),
    ('B15', 'B', 'dsGetInt', DS, rep('def get_int(self, num_bytes: int, byte_order: str = None,', "def get_int(self, num_bytes: int, byte_order: str = 'little',"), 'get_int: default byte order'),
    ('B16', 'B', 'dsCtorArgs', PT, nth("DataStream(data, byte_order='big', is_signed=False)", "DataStream(data, byte_order='little', is_signed=False)", 2), 'peltool.py: one stream constructed little-endian'),
    ('B17', 'B', 'dsCtorArgs', PT, rex(r"DataStream\(data, byte_order='big', is_signed=False\)", "DataStream(data, byte_order='big', is_signed=True)"), 'peltool.py: every stream constructed signed'),
    ('B18', 'B', 'dsGetMem', DS, nth('raise AssertionError("range check failure")', 'raise IndexError("range check failure")', 1), 'get_mem: another exception class'),
    ('B19', 'B', 'dsCheckRange', DS, rep('return True if self.index + num_bytes <= self.size else False', 'return True'), 'check_range: always true'),
    ('B20', 'B', 'dsGetInt', DS, rep('        return int.from_bytes(self.get_mem(num_bytes),', '        return int.from_bytes(self.get_mem(num_bytes + 1),'), 'get_int: reads one byte more'),
    ('B21', 'B', 'dsCheckRange', DS, rep('self.index + num_bytes <= self.size', 'self.size + num_bytes <= self.index'), 'check_range: size and cursor exchanged'),
    ('B22', 'B', 'dsIncIndex', DS, nth(RANGE_CHECK, '', 0), 'inc_index: range check dropped'),
    ('B23', 'B', 'dsGetMem', DS, lambda s: s + '\n\nDataStream.get_mem = lambda self, n: self.data[:n]\n', 'datastream.py: method replaced after the class'),
    # ================= behaviour-changing: user_data.py / ext_user_data.py
    ('B24', 'B', 'decodeUD', UD, rep('self.dataLength = sectionLen - 8', 'self.dataLength = sectionLen - 4'), 'UD: payload length'),
    ('B25', 'B', 'decodeED', ED, rep('dataLength = sectionLen - 4 - 8', 'dataLength = sectionLen - 8'), 'ED: payload length ignores the four extra bytes'),
    ('B26', 'B', 'decodeED', ED, rep('self.creatorID = chr(stream.get_int(1))', 'self.creatorID = chr(stream.get_int(2))'), 'ED: creator read as two bytes'),
    ('B27', 'B', 'decodeED', ED, rep('self.reserved2B = stream.get_int(2)', 'self.reserved2B = stream.get_int(1)'), 'ED: reserved field one byte short'),
    ('B28', 'B', 'decodeED', ED, rep('        self.creatorID = chr(stream.get_int(1))\n        self.reserved1B = stream.get_int(1)\n',
                                     '        self.reserved1B = stream.get_int(1)\n        self.creatorID = chr(stream.get_int(1))\n'), 'ED: creator is the second byte'),
    ('B29', 'B', 'decodeUD', UD, rep('ParseUserData(self.creatorID, self.componentID, self.subType,\n                               self.versionID, self.data)',
                                     'ParseUserData(self.creatorID, self.componentID, self.versionID,\n                               self.subType, self.data)'), 'UD: sub-type and version handed on exchanged'),
    ('B30', 'B', 'decodeUD', UD, rep('except json.decoder.JSONDecodeError:', 'except Exception:'), 'UD: every exception of json.loads is caught'),
    ('B31', 'B', 'decodeUD', UD, rep("out['Data'] = j", "out['Value'] = j"), 'UD: key of a non-object value'),
    ('B32', 'B', 'decodeED', ED, rep('if not isinstance(j, dict):', 'if isinstance(j, dict):'), 'ED: merge test inverted'),
    ('B33', 'B', 'decodeUD', UD, rep('j = json.loads(json.dumps(hexdump(mv)))', 'j = json.loads(json.dumps([value]))'), 'UD: fall-back shows the text instead of its dump'),
    ('B34', 'B', 'decodeUD', UD, rep('out["Sub-section type"] = self.subType', 'out["Sub-section type"] = self.versionID'), 'UD: header member shows another field'),
    ('B35', 'B', 'decodeED', ED, rep('        self.reserved1B = stream.get_int(1)\n', ''), 'ED: a reserved byte is not skipped (statement dropped)'),
    ('B36', 'B', 'decodeUD', UD, rep("value.encode('utf-8')", "value.encode('latin-1')"), 'UD: fall-back dump of another encoding'),
    ('B37', 'B', 'decodeED', ED, rep('        out["Section Version"] = self.versionID\n        out["Sub-section type"] = self.subType\n',
                                     '        out["Sub-section type"] = self.subType\n        out["Section Version"] = self.versionID\n'), 'ED: order of two header members'),
    ('B38', 'B', 'decodeUD', UD, rep('        value = parser.parse(config)\n', '        try:\n            value = parser.parse(config)\n        except Exception:\n            value = "{}"\n'), 'UD: exceptions of parse swallowed'),
    ('B39', 'B', 'decodeUD', UD, rep('            out.update(j)\n', "            out.update(j)\n        out['Extra'] = 1\n"), 'UD: a member added after the merge'),
    # ================= behaviour-changing: parse_user_data.py
    ('B40', 'B', 'udBuiltin udParse', PU, rep('    json = 0x1\n', '    json = 0x5\n'), 'UserDataFormat.json has another value'),
    ('B41', 'B', 'udBuiltin udParse', PU, seq(rep('    cbor = 0x2\n', '    cbor = 0x3\n'), rep('    text = 0x3\n', '    text = 0x2\n')), 'UserDataFormat: cbor and text exchanged'),
    ('B42', 'B', 'udBuiltin udParse', PU, rep("ord(ch) > ord('~')", "ord(ch) >= ord('~')"), 'text format: tilde replaced too'),
    ('B43', 'B', 'udBuiltin udParse', PU, rep("ch = '.'", "ch = '?'"), 'text format: replacement character'),
    ('B44', 'B', 'udBuiltin udParse', PU, rep("if ch != '\\n':", "if ch != '\\r':"), 'text format: line separator'),
    ('B45', 'B', 'udBuiltin udParse', PU, rep("            if line != '':\n                lines.append(line)\n\n", ''), 'text format: last line dropped'),
    ('B46', 'B', 'udBuiltin udParse', PU, nth("bytes.decode(self.data).strip().rstrip('\\x00')", "bytes.decode(self.data).rstrip('\\x00').strip()", 0), 'json format: strip order'),
    ('B47', 'B', 'udBuiltin udParse', PU, nth("bytes.decode(self.data).strip().rstrip('\\x00')", "bytes.decode(self.data).strip()", 1), 'text format: NUL padding kept'),
    ('B48', 'B', 'udBuiltin udParse', PU, rep('                    lines.append(line)\n                    line = \'\'\n', '                    lines.append(line)\n'), 'text format: line not reset after a newline'),
    ('B49', 'B', 'udParse', PU, rep('and self.compID == 0x2000:', 'and self.compID == 0x2001:'), 'parse: component id of the built-in formats'),
    ('B50', 'B', 'udParse', PU, rep('creatorIDs[self.creatorID] == "BMC"', 'creatorIDs[self.creatorID] == "HMC"'), 'parse: creator of the built-in formats'),
    ('B51', 'B', 'udParse', PU, rep('            if config.allow_plugins:', '            if not config.allow_plugins:'), 'parse: plugin switch inverted'),
    ('B52', 'B', 'udParse', PU, rep('"Parser returned a value of None for creatorID={}', '"Parser returned None for creatorID={}'), 'parse: text of the None note'),
    ('B53', 'B', 'udParse', PU, nth('"0x%04X" % self.compID', '"0x%04x" % self.compID', 0), 'parse: component id of the None note in lower case'),
    ('B54', 'B', 'udParse', PU, nth('                d["Data"] = hexdump(mv)\n', '                d["Dump"] = hexdump(mv)\n', 0), 'parse: key of the dump when plugins are disabled'),
    ('B55', 'B', 'udParse', PU, rep('        if value == None:', '        if value != None:'), 'parse: None test inverted'),
    ('B56', 'B', 'udParseCustom udParse', PU, rep('userDataParserMod = "udparsers." + name + "." + name', 'userDataParserMod = "srcparsers." + name + "." + name'), 'parseCustom: package name'),
    ('B57', 'B', 'udParseCustom udParse', PU, rep('userDataParserMod = "udparsers." + name + "." + name', 'userDataParserMod = "udparsers." + name'), 'parseCustom: module name'),
    ('B58', 'B', 'udParseCustom udParse', PU, rep('                except ImportError:', '                except Exception:'), 'parseCustom: any failing import is "not found" (stored as None)'),
    ('B59', 'B', 'udParseCustom udParse', PU, rep('        except Exception as e:', '        except ImportError as e:'), 'parseCustom: only ImportError becomes the error note'),
    ('B60', 'B', 'udParseCustom udParse', PU, rep("""                try:
                    cls = importlib.import_module(userDataParserMod)
                except ImportError:
                    # No print for informational purposes, this is encountered often, e.g. PHYP
                    cls = None
                userDataParsers[userDataParserMod] = cls
""", """                cls = importlib.import_module(userDataParserMod)
                userDataParsers[userDataParserMod] = cls
"""), 'parseCustom: ImportError of the import not handled separately (error note instead of dump, nothing stored)'),
    ('B61', 'B', 'udParseCustom udParse', PU, rep('cls.parseUDToJson(self.subType, self.version, mv)', 'cls.parseUDToJson(self.version, self.subType, mv)'), 'parseCustom: arguments of the parser exchanged'),
    ('B62', 'B', 'udParseCustom udParse', PU, rep('                if cls is None:', '                if cls is not None:'), 'parseCustom: None test inverted'),
    ('B63', 'B', 'udParseCustom udParse', PU, rep('"0x%X" % self.subType', 'self.subType'), 'parseCustom: sub-type of the error note in decimal'),
    ('B64', 'B', 'udParseCustom udParse', PU, nth('            if self.data:\n                mv = memoryview(self.data)\n                d["Data"] = hexdump(mv)\n', '', 1), 'parseCustom: error note without the dump'),
    ('B65', 'B', 'udParseCustom udParse', PU, rep('                    return json.dumps(hexdump(mv))\n                else:', '                    return json.dumps("")\n                else:'), 'parseCustom: no dump when the module is not found'),
    ('B66', 'B', 'udParseCustom udParse', PU, rep('                userDataParsers[userDataParserMod] = cls\n', ''), 'parseCustom: the look-up result is not stored'),
    ('B67', 'B', 'udParseCustom udParse', PU, rep("""            if userDataParserMod in userDataParsers:
                cls = userDataParsers[userDataParserMod]
            else:
""", """            if False:
                pass
            else:
"""), 'parseCustom: the table is never consulted'),
    ('B68', 'B', 'udParseCustom udParse', PU, rep('Exception={}"', 'Error={}"'), 'parseCustom: text of the error note'),
    ('B69', 'B', 'udCacheInit', PU, rep('userDataParsers = {}', 'userDataParsers = {"udparsers.b2000.b2000": None}'), 'the module table does not start empty'),
    ('B70', 'B', 'udParse', PU, rep('        self.subType = subType\n', '        self.subType = version\n'), 'ParseUserData.__init__ stores the version as the sub-type'),
    ('B71', 'B', 'decodeUD udParse', HD, rep('bytes_per_line: int = 16', 'bytes_per_line: int = 8'), 'hexdump: default line length'),
    ('B72', 'B', 'udParseCustom udParse', PU, rep('name = (self.creatorID.lower() + "%04X" % self.compID).lower()', 'name = self.creatorID + "%04X" % self.compID'), 'parseCustom: module name not lower-cased'),
    ('B73', 'B', 'udBuiltin udParseCustom udParse udCacheInit', PU, lambda s: s + '\n\nParseUserData.parse = lambda self, config: "{}"\n', 'parse_user_data.py: method replaced after the class'),
    ('B74', 'B', 'decodeUD', UD, rep('class UserData:', 'class Base:\n    pass\n\n\nclass UserData(Base):'), 'UD: class gets a base class'),
    ('B75', 'B', 'udBuiltin udParse', PU, rep("            string = bytes.decode(self.data).strip().rstrip('\\x00')\n            return string", "            try:\n                string = bytes.decode(self.data).strip().rstrip('\\x00')\n            except UnicodeDecodeError:\n                string = '{}'\n            return string"),
     'json format: a decode failure is swallowed'),
    # ================= behaviour-preserving
    ('P01', 'P', ALL_DS, DS, seq(rex(r'\bnum_bytes\b', 'n'), rex(r'\bo_mv\b', 'chunk')), 'datastream: parameters and a local renamed'),
    ('P02', 'P', 'dsInit ' + ALL_DS, DS, seq(rex(r'self\.index\b', 'self.pos'), rex(r'self\.size\b', 'self.total'), rex(r'self\.data\b', 'self.mv')), 'datastream: fields renamed'),
    ('P03', 'P', 'dsCheckRange', DS, rep('if not 0 < num_bytes:', 'if num_bytes <= 0:'), 'check_range: the test written the other way round'),
    ('P04', 'P', 'dsCheckRange', DS, rep('return True if self.index + num_bytes <= self.size else False', 'return self.index + num_bytes <= self.size'), 'check_range: returns the comparison itself'),
    ('P05', 'P', 'dsInit', DS, rep('        self.data = data\n        self.size = len(data)\n        self.index = 0\n', '        self.index = 0\n        self.size = len(data)\n        self.data = data\n'),
     '__init__: statements reordered'),
    ('P06', 'P', ALL_DS, DS, seq(rep('    def check_range(self, num_bytes: int) -> bool:', '    def check_range(self, num_bytes) -> "bool":'),
                                 rep('        o_mv = self.data[', '        # the slice\n        o_mv: memoryview = self.data['),
                                 rep('    def inc_index(self, num_bytes: int) -> None:\n        """', '    def inc_index(self, num_bytes: int):\n        """(edited) ')), 'datastream: type hints, comments, docstrings'),
    ('P07', 'P', 'dsGetMem', DS, rep('        o_mv = self.data[self.index: self.index + num_bytes]\n', '        start = self.index\n        end = start + num_bytes\n        o_mv = self.data[start:end]\n'),
     'get_mem: temporaries for the slice bounds'),
    ('P08', 'P', 'dsGetInt', DS, seq(rep('if None == byte_order:', 'if byte_order is None:'), rep('if None == is_signed:', 'if is_signed is None:')), 'get_int: `is None`'),
    ('P09', 'P', 'dsGetMem', DS, nth(RANGE_CHECK, '', 1), 'get_mem: without its own range check (inc_index raises the same error before anything is returned)'),
    ('P10', 'P', 'dsIncIndex', DS, rep('self.index += num_bytes', 'self.index = self.index + num_bytes'), 'inc_index: plain assignment'),
    ('P11', 'P', 'dsCheckRange', DS, rep('self.index + num_bytes <= self.size', 'self.size >= self.index + num_bytes'), 'check_range: comparison mirrored'),
    ('P12', 'P', 'dsGetInt', DS, rep('        return int.from_bytes(self.get_mem(num_bytes),\n                              byteorder=byte_order, signed=is_signed)',
                                     '        raw = self.get_mem(num_bytes)\n        return int.from_bytes(raw, byteorder=byte_order, signed=is_signed)'), 'get_int: temporary for the bytes'),
    ('P13', 'P', 'decodeUD', UD, seq(rex(r'self\.dataLength\b', 'self.n'), rex(r'\bparser\b', 'p'), rex(r'\bvalue\b', 'text'), rex(r'\bj\b', 'doc'), rex(r'\bmv\b', 'view'), rex(r'\bout\b', 'res')),
     'UD: field and locals renamed'),
    ('P14', 'P', 'decodeUD', UD, rep('        self.dataLength = sectionLen - 8\n        self.data = self.stream.get_mem(self.dataLength)', '        self.data = stream.get_mem(sectionLen - 8)'), 'UD: length temporary inlined'),
    ('P15', 'P', 'decodeED', ED, rep('dataLength = sectionLen - 4 - 8', 'dataLength = sectionLen - 12'), 'ED: 12 instead of 4 + 8'),
    ('P16', 'P', 'decodeUD', UD, rep("        if not isinstance(j, dict):\n            out['Data'] = j\n        else:\n            out.update(j)\n",
                                     "        if isinstance(j, dict):\n            out.update(j)\n        else:\n            out['Data'] = j\n"), 'UD: merge test written positively, branches exchanged'),
    ('P17', 'P', 'decodeED', ED, rep('except json.decoder.JSONDecodeError:', 'except json.JSONDecodeError:'), 'ED: the same exception class under its other name'),
    ('P18', 'P', 'decodeUD', UD, rep("            mv = memoryview(value.encode('utf-8'))\n            j = json.loads(json.dumps(hexdump(mv)))", "            j = json.loads(json.dumps(hexdump(value.encode('utf-8'))))"), 'UD: without the memoryview temporary'),
    ('P19', 'P', 'decodeED', ED, rep('        out = OrderedDict()\n', '        out: OrderedDict = OrderedDict()  # header members first\n'), 'ED: type hint and comment'),
    ('P20', 'P', 'udBuiltin udParse', PU, seq(rex(r'\bch\b', 'c'), rex(r'\blines\b', 'rows'), rex(r'\bline\b', 'cur')), 'text format: loop locals renamed'),
    ('P21', 'P', 'udBuiltin udParse', PU, rep("if ord(ch) < ord(' ') or ord(ch) > ord('~'):", 'if ord(ch) < 32 or ord(ch) > 126:'), 'text format: code points as numbers'),
    ('P22', 'P', 'udParse', PU, rep('("Parser returned a value of None for creatorID={} compID={} subType={} version={}"\n                     .format(self.creatorID, "0x%04X" % self.compID, self.subType, self.version))',
                                    'f"Parser returned a value of None for creatorID={self.creatorID} compID=0x{self.compID:04X} subType={self.subType} version={self.version}"'), 'parse: f-string'),
    ('P23', 'P', 'udParse', PU, rep('if value == None:', 'if value is None:'), 'parse: `is None`'),
    ('P24', 'P', 'udBuiltin udParse', PU, rex(r'        elif self\.subType == UserDataFormat\.cbor\.value:\n(?:            #.*\n)+\n            mv = memoryview\(self\.data\)\n            return json\.dumps\(hexdump\(mv\)\)\n\n', ''),
     'built-in formats: the cbor branch removed (the else branch does the same)'),
    ('P25', 'P', 'udParseCustom udParse', PU, seq(rex(r'\buserDataParserMod\b', 'modname'), rex(r'\bname\b', 'short'), rex(r'\bcls\b', 'module')), 'parseCustom: locals renamed'),
    ('P26', 'P', 'udParseCustom udParse', PU, nth('"0x%04X" % self.compID', '"0x{:04X}".format(self.compID)', 1), 'parseCustom: format instead of %'),
    ('P27', 'P', 'udParseCustom udParse', PU, rep("""                if cls is None:
                    # The module is not found.
                    return json.dumps(hexdump(mv))
                else:
                    return cls.parseUDToJson(self.subType, self.version, mv)""", """                if cls is not None:
                    return cls.parseUDToJson(self.subType, self.version, mv)
                else:
                    return json.dumps(hexdump(mv))"""), 'parseCustom: None test negated and branches exchanged'),
    ('P28', 'P', 'udParse', PU, nth('                    mv = memoryview(self.data)\n                    d["Data"] = hexdump(mv)\n', '                    d["Data"] = hexdump(self.data)\n', 0), 'parse: without the memoryview temporary'),
    ('P29', 'P', 'udParseCustom udParse', PU, rep('name = (self.creatorID.lower() + "%04X" % self.compID).lower()', 'name = (self.creatorID.lower() + "{:04X}".format(self.compID)).lower()'), 'parseCustom: format instead of % in the module name'),
    ('P30', 'P', 'udParseCustom udParse', PU, rep('name = (self.creatorID.lower() + "%04X" % self.compID).lower()', 'name = (self.creatorID.lower() + "%04x" % self.compID).lower()'),
     'parseCustom: lower-case hex format before the (idempotent) lower()'),
    ('P31', 'P', 'udParse', PU, seq(rep('    def parse(self, config: Config) -> str:\n', '    def parse(self, cfg: "Config") -> str:\n        """returns the text json.loads is applied to"""\n'),
                                    rep('if config.allow_plugins:', 'if cfg.allow_plugins:')),
     'parse: parameter renamed, docstring'),
    ('P32', 'P', 'udBuiltin udParse', PU, rep("            string = bytes.decode(self.data).strip().rstrip('\\x00')\n            return string", "            return bytes.decode(self.data).strip().rstrip('\\x00')"), 'json format: without the temporary'),
    ('P34', 'P', 'udBuiltin udParseCustom udParse', PU, seq(rex(r'self\.subType\b', 'self.st'), rex(r'self\.compID\b', 'self._comp'), rex(r'self\.data\b', 'self.payload')), 'ParseUserData: fields renamed'),
    ('P33', 'P', 'udParseCustom udParse', PU, rep('        # We should have returned above, but in case we did NOT\n        return json.dumps("")', '        return None'),
     'parseCustom: the statement after the try returns None instead of "" (reached only for an EMPTY payload, which get_mem never returns: outside the hypothesis `data ≠ []` of the tie)'),
]


def run(cmd, cwd, timeout=1800):
    env = dict(os.environ, VERIF_REPO=REPO, PYTHONDONTWRITEBYTECODE='1')
    r = subprocess.run(cmd, cwd=cwd, env=env, stdout=subprocess.PIPE, stderr=subprocess.STDOUT, text=True, timeout=timeout)
    return r.returncode, r.stdout


def restore():
    run(['git', 'checkout', '--', '.'], REPO)


def tie_theorems(tie):
    out = []
    for n, line in enumerate(open(os.path.join(LEAN, 'PelProps', tie + '.lean')), 1):
        m = re.match(r'\s*theorem\s+(\S+)', line)
        if m:
            out.append((n, m.group(1)))
    return out


def evaluate(targets):
    """-> (translated?, proved?, detail)"""
    rc, out = run([PY, os.path.join(VERIF, 'harness', 'extract.py')], VERIF)
    if rc != 0:
        return None, None, 'extract.py failed: ' + out[-300:]
    unavailable = {}
    for l in out.split('\n'):
        if l.startswith('TRANSLATION-UNAVAILABLE '):
            nm, _, why = l[len('TRANSLATION-UNAVAILABLE '):].partition(' ')
            unavailable[nm] = why
    broken = []
    ok = True
    for tie in TIES:
        rc, out = run(['lake', 'build', 'PelProps.' + tie], LEAN)
        if rc != 0:
            ok = False
            ths = tie_theorems(tie)
            found = False
            for m in re.finditer(r'%s\.lean:(\d+):\d+' % tie, out):
                ln = int(m.group(1))
                owner = None
                for st, nm in ths:
                    if st <= ln:
                        owner = nm
                if owner and owner not in broken:
                    broken.append(owner)
                    found = True
            if not found:
                broken.append(tie + ':?')
    mine = [t for t in targets if t in unavailable]
    others = [u for u in unavailable if u not in targets]
    detail = ''
    if mine:
        detail = '; '.join('%s %s' % (t, unavailable[t]) for t in mine)
    if others:
        detail += ' [also unavailable: %s]' % ', '.join(others)
    if broken:
        detail += ' broken: ' + ', '.join(broken)
    return not mine, ok, detail.strip()


def main():
    args = sys.argv[1:]
    sel = None
    if '-k' in args:
        sel = args[args.index('-k') + 1]
    rc, out = run(['git', 'status', '--porcelain'], REPO)
    if out.strip():
        sys.exit('the worktree %s is not clean:\n%s' % (REPO, out))
    rows = []
    bad = 0
    fmt = '%-4s %-1s %-22s %-11s %-9s %s'
    try:
        t, p, d = evaluate([])
        print(fmt % ('id', 'k', 'definitions', 'translated', 'tie', 'verdict / description'))
        print(fmt % ('base', '-', '(all)', 'yes' if not d else 'NO', 'proved' if p else 'BROKEN', ('unexpected: ' + d) if d or not p else 'clean tree'))
        if d or not p:
            bad += 1
        for mid, kind, targets, path, edit, desc in MUTANTS:
            if sel and sel not in mid and sel not in targets:
                continue
            tl = targets.split()
            short = targets if len(targets) <= 22 else tl[0] + ' +%d' % (len(tl) - 1)
            full = os.path.join(REPO, path)
            text = open(full, encoding='utf-8').read()
            try:
                new = edit(text)
            except RuntimeError as e:
                print(fmt % (mid, kind, short, '-', '-', 'MUTANT DOES NOT APPLY: %s' % e))
                bad += 1
                continue
            try:
                compile(new, full, 'exec')
            except SyntaxError as e:
                print(fmt % (mid, kind, short, '-', '-', 'MUTANT IS NOT PYTHON: %s' % e))
                bad += 1
                continue
            with open(full, 'w', encoding='utf-8') as f:
                f.write(new)
            try:
                t, p, d = evaluate(tl)
            finally:
                restore()
            if t is None:
                verdict = 'ERROR ' + d
                bad += 1
            elif not t:
                verdict = 'ok (unavailable)' if kind == 'B' else 'acceptable (unavailable)'
            elif p:
                verdict = 'ok (still proved)' if kind == 'P' else '*** MISSED: behaviour change still proved ***'
                bad += kind == 'B'
            else:
                verdict = 'ok (tie broken)' if kind == 'B' else 'FALSE ALARM (tie broken on a harmless rewrite)'
            print(fmt % (mid, kind, short, 'yes' if t else 'UNAVAILABLE', ('proved' if p else 'BROKEN') if t else '-',
                         '%s | %s%s' % (verdict, desc, (' | ' + d) if d else '')))
            sys.stdout.flush()
            rows.append((mid, kind, t, p))
    finally:
        restore()
        evaluate([])
    nb = [r for r in rows if r[1] == 'B']
    npp = [r for r in rows if r[1] == 'P']
    print('behaviour-changing: %d mutants, %d tie broken, %d unavailable, %d MISSED' % (
        len(nb), sum(1 for r in nb if r[2] and not r[3]), sum(1 for r in nb if not r[2]), sum(1 for r in nb if r[2] and r[3])))
    print('behaviour-preserving: %d rewrites, %d still proved, %d unavailable, %d tie broken' % (
        len(npp), sum(1 for r in npp if r[2] and r[3]), sum(1 for r in npp if not r[2]), sum(1 for r in npp if r[2] and not r[3])))
    sys.exit(1 if bad else 0)


if __name__ == '__main__':
    main()
