#!/venv/bin/python
"""
Self-test of the source tie of the header-type sections (harness/trans_sections.py, lean/PelProps/TieC02.lean).

Applies source MUTANTS one at a time to the repository worktree named by VERIF_REPO (never /repo), regenerates
lean/PelGen/GenSections.lean with harness/extract.py, builds PelProps.TieC02 and prints a table

    mutant | kind | translated? | tie proved? | verdict

kind B = behaviour-changing (expected: tie BROKEN or translation UNAVAILABLE, never proved),
kind P = behaviour-preserving (ideally still proved, UNAVAILABLE acceptable, BROKEN reported).
The worktree is always restored (`git checkout -- .`) and the generated file regenerated from the clean tree.

    VERIF_REPO=/tmp/work/T1/repo tools/transtest_sections.py [-k substring] [--keep-going]
"""
import os
import re
import subprocess
import sys

VERIF = os.path.dirname(os.path.dirname(os.path.abspath(__file__)))
REPO = os.environ.get('VERIF_REPO')
if not REPO or os.path.realpath(REPO) == '/repo':
    sys.exit('set VERIF_REPO to a scratch worktree (never /repo)')
PY = '/venv/bin/python'
LEAN = os.path.join(VERIF, 'lean')
PT = 'modules/pel/peltool/'

PH, UH, EH, MT, LP, DF, CI = (PT + f for f in ('private_header.py', 'user_header.py', 'extend_user_header.py', 'failing_mtms.py',
                                               'imp_partition.py', 'default.py', 'comp_id.py'))
HD = 'modules/pel/hexdump.py'


def rep(old, new, count=1):
    def f(text):
        if text.count(old) != count:
            raise RuntimeError('pattern %r occurs %d times, expected %d' % (old, text.count(old), count))
        return text.replace(old, new)
    return f


def rex(pat, new, count=None):
    def f(text):
        out, n = re.subn(pat, new, text)
        if n == 0 or (count is not None and n != count):
            raise RuntimeError('pattern %r matched %d times' % (pat, n))
        return out
    return f


def seq(*fs):
    def f(text):
        for g in fs:
            text = g(text)
        return text
    return f


def nth(old, new, k):
    """replace the k-th (0-based) occurrence"""
    def f(text):
        parts = text.split(old)
        if len(parts) <= k + 1:
            raise RuntimeError('pattern %r has no occurrence %d' % (old, k))
        return old.join(parts[:k + 1]) + new + old.join(parts[k + 1:])
    return f


# (id, kind, function(s) concerned, file, edit, description)
MUTANTS = [
    # ---------------- behaviour-changing
    ('B01', 'B', 'decodePH', PH, rep('"0x{:02X}".format(self.stream.get_int(8))', '"0x{:02X}".format(self.stream.get_int(4))'), 'PH: creator version read with width 4 instead of 8'),
    ('B02', 'B', 'decodePH', PH, seq(rep('self.pLID = "0x{:02X}"', 'self.TMP = "0x{:02X}"'), rep('self.lEID = "0x{:02X}"', 'self.pLID = "0x{:02X}"'),
                                     rep('self.TMP = "0x{:02X}"', 'self.lEID = "0x{:02X}"')), 'PH: platform log id and entry id read in the other order'),
    ('B03', 'B', 'decodePH', PH, rep('self.pLID = "0x{:02X}"', 'self.pLID = "0x{:08X}"'), 'PH: platform log id padded to eight digits'),
    ('B04', 'B', 'decodePH', PH, rep('out["Platform Log Id"]', 'out["Platform Log ID"]'), 'PH: member name changed'),
    ('B05', 'B', 'decodePH', PH, rep("creatorIDs.get(self.creatorID, 'Unknown')", "creatorIDs.get(self.creatorID, 'Invalid')"), 'PH: default of the creator table look-up'),
    ('B06', 'B', 'decodePH', PH, rep('out["Created at"] = self.createTime', 'out["Created at"] = self.commitTime'), 'PH: creation time shows the commit time'),
    ('B07', 'B', 'decodePH', PH, rep('        self.reserved1 = self.stream.get_int(1)\n', ''), 'PH: a reserved byte is no longer skipped (statement dropped)'),
    ('B08', 'B', 'getTimestamp', PH, rep('createTime = month + "/" + day', 'createTime = day + "/" + month'), 'getTimestamp: day and month swapped'),
    ('B09', 'B', 'getTimestamp', PH, rep('year = stream.get_mem(2).hex()', 'year = stream.get_mem(1).hex()'), 'getTimestamp: year read as one byte'),
    ('B10', 'B', 'getTimestamp', PH, rep('hour + ":" + min', 'hour + "." + min'), 'getTimestamp: separator text changed'),
    ('B11', 'B', 'decodeUH', UH, rep('0x0000FF00', '0x00FF0000'), 'UH: mask of the HMC transmission state'),
    ('B12', 'B', 'decodeUH', UH, rep('0x0000FF00) >> 8', '0x0000FF00) >> 4'), 'UH: shift of the HMC transmission state'),
    ('B13', 'B', 'decodeUH', UH, rep('eventScopeValues.get(self.eventScope', 'eventTypeValues.get(self.eventScope'), 'UH: event scope looked up in the event type table'),
    ('B14', 'B', 'decodeUH', UH, rep('if key & self.actionFlags:', 'if key & self.states:'), 'UH: action flag names selected by another field'),
    ('B15', 'B', 'decodeUH', UH, rep('if key & self.actionFlags:', 'if not key & self.actionFlags:'), 'UH: action flag test negated'),
    ('B16', 'B', 'decodeUH', UH, seq(rep('self.eventSeverity = self.stream.get_int(1)', 'self.TMP = self.stream.get_int(1)'),
                                     rep('self.eventType = self.stream.get_int(1)', 'self.eventSeverity = self.stream.get_int(1)'),
                                     rep('self.TMP = self.stream.get_int(1)', 'self.eventType = self.stream.get_int(1)')), 'UH: severity and type bytes swapped'),
    ('B17', 'B', 'decodeUH', UH, rep('self.actionFlags = self.stream.get_int(2)', 'self.actionFlags = self.stream.get_int(4)'), 'UH: action flags read with width 4'),
    ('B18', 'B', 'decodeUH', UH, rep("self.states & 0xff, 'Unknown'", "self.states & 0xff, 'Invalid'"), 'UH: default of the transmission state look-up'),
    ('B19', 'B', 'decodeEH', EH, rep('if self.symptomIDSize != 0:', 'if self.symptomIDSize > 1:'), 'EH: comparison of the symptom id length'),
    ('B20', 'B', 'decodeEH', EH, rep("""            self.symptomID = bytes.decode(
                self.stream.get_mem(self.symptomIDSize))
        else:
            self.symptomID = ''""", """            self.symptomID = ''
        else:
            self.symptomID = bytes.decode(
                self.stream.get_mem(self.symptomIDSize))"""), 'EH: branches of the symptom id read exchanged'),
    ('B21', 'B', 'decodeEH', EH, rep('self.machineType.strip("\\u0000")', 'self.machineType.rstrip("\\u0000")'), 'EH: machine type only stripped on the right'),
    ('B22', 'B', 'decodeEH', EH, rep('out["Symptom Id Len"] = str(self.symptomIDSize)', 'out["Symptom Id Len"] = "{:02X}".format(self.symptomIDSize)'), 'EH: symptom id length shown in hex'),
    ('B23', 'B', 'decodeEH', EH, rep('self.refTime = getTimestamp(self.stream)\n', 'self.refTime = getTimestamp(self.stream)\n        self.stream.inc_index(1)\n'), 'EH: an extra byte skipped (unknown statement)'),
    ('B24', 'B', 'decodeMT', MT, rep('self.stream.get_mem(12)', 'self.stream.get_mem(8)'), 'MT: serial number read with width 8'),
    ('B25', 'B', 'decodeMT', MT, seq(rep('out["Machine Type Model"]', 'out["TMP"]'), rep('out["Serial Number"]', 'out["Machine Type Model"]'), rep('out["TMP"]', 'out["Serial Number"]')),
     'MT: the two values shown under each other\'s name'),
    ('B26', 'B', 'decodeMT', MT, rep('        out["Sub-section type"] = self.subType\n        out["Created by"] = getDisplayCompID(self.componentID, self.creatorID)\n',
                                     '        out["Created by"] = getDisplayCompID(self.componentID, self.creatorID)\n        out["Sub-section type"] = self.subType\n'), 'MT: order of two members'),
    ('B27', 'B', 'decodeMT', MT, rep('self.versionID = versionID', 'self.versionID = subType'), 'MT: __init__ stores another header field as the version'),
    ('B28', 'B', 'decodeLP', LP, rep('if self.targetLPcount % 2:', 'if self.targetLPcount % 4:'), 'LP: padding rule'),
    ('B29', 'B', 'decodeLP', LP, rep('["0x{:04X}".format(lp)', '["0x{:04x}".format(lp)'), 'LP: target ids in lower case'),
    ('B30', 'B', 'decodeLP', LP, rep('for _ in range(self.targetLPcount):', 'for _ in range(self.lpNameLength):'), 'LP: loop count taken from another field'),
    ('B31', 'B', 'decodeLP', LP, rep(".rstrip('\\x00')", ''), 'LP: partition name keeps its padding'),
    ('B32', 'B', 'decodeLP', LP, rep('self.lpName = ""', 'self.lpName = "?"'), 'LP: initial value of the name (shown when the length is 0)'),
    ('B33', 'B', 'decodeLP', LP, nth('if self.targetLPcount:', 'if self.lpNameLength:', 1), 'LP: "Target LP" member shown under another condition'),
    ('B34', 'B', 'decodeLP', LP, rep('self.targetLPs.append(self.stream.get_int(2))', 'self.targetLPs.append(self.stream.get_int(4))'), 'LP: target ids read with width 4'),
    ('B35', 'B', 'decodeLP', LP, rep('self.targetLPs = []', 'self.targetLPs = [0]'), 'LP: initial list not empty'),
    ('B36', 'B', 'decodeDefault', DF, rep('self.dataLength = sectionLen - 8', 'self.dataLength = sectionLen - 4'), 'Default: payload length'),
    ('B37', 'B', 'decodeDefault', DF, rep('out["Created by"] = "0x{:02X}"', 'out["Created by"] = "0x{:04X}"'), 'Default: component id format'),
    ('B38', 'B', 'decodeDefault', HD, rep('bytes_per_chunk: int = 4', 'bytes_per_chunk: int = 8'), 'hexdump: default chunk size (Default section)'),
    ('B39', 'B', 'decodeDefault', DF, rep('sectionLen: int,\n                 versionID: int, subType: int', 'sectionLen: int,\n                 subType: int, versionID: int'), 'Default: constructor parameters exchanged'),
    ('B40', 'B', 'displayCompID', CI, rep('first = (componentID >> 8) & 0xFF', 'first = (componentID >> 4) & 0xFF'), 'compid: shift'),
    ('B41', 'B', 'displayCompID', CI, rep('== "PHYP"', '== "HMC"'), 'compid: creator name'),
    ('B42', 'B', 'displayCompID', CI, rep('if first != 0 and second != 0:', 'if first != 0 or second != 0:'), 'compid: and -> or'),
    ('B43', 'B', 'displayCompID', CI, rep("compIDStr = '{:04X}'.format(componentID)", "compIDStr = '{:04x}'.format(componentID)"), 'compid: lower-case look-up key'),
    ('B44', 'B', 'decodePH', PH, rep('self.creatorID = bytes.decode(self.stream.get_mem(1))', 'try:\n            self.creatorID = bytes.decode(self.stream.get_mem(1))\n        except UnicodeDecodeError:\n            self.creatorID = "?"'),
     'PH: decode failure caught (try/except)'),
    ('B45', 'B', 'decodeUH', UH, rep('class UserHeader:', 'class Base:\n    pass\n\n\nclass UserHeader(Base):'), 'UH: class gets a base class'),
    ('B46', 'B', 'decodeLP', LP, rep('        out["Primary Partition Name"] = self.lpName\n', '        out["Primary Partition Name"] = self.lpName\n        out["Section Version"] = 0\n'), 'LP: a member assigned twice'),
    ('B47', 'B', 'phIdText', PH, seq(rep('self.pLID = "0x{:02X}".format(self.stream.get_int(4))', 'plid = self.stream.get_int(4)\n        self.pLID = "{:08X}".format(plid)'),
                                     rep('out["Platform Log Id"] = self.pLID', 'out["Platform Log Id"] = "0x{:02X}".format(plid)')), 'PH: ph.pLID stored in another format, the section display unchanged'),
    ('B48', 'B', 'decodeEH', EH, rep('if self.symptomIDSize != 0:', 'if self.symptomIDSize != 0 and self.stream.get_int(1) != 0:'), 'EH: a read in a short-circuited condition'),
    ('B49', 'B', 'decodeUH', UH, rep('getDisplayCompID(\n            self.componentID, self.creatorID)', 'getDisplayCompID(\n            self.sectionID, self.creatorID)'), 'UH: component name of the section id'),
    ('B50', 'B', 'decodeMT', MT, lambda s: s + '\n\ndef getDisplayCompID(componentID, creatorID):\n    return "0000"\n', 'MT: imported function rebound at module level'),
    ('B51', 'B', 'decodeLP', LP, rep('self.primaryPartID = self.stream.get_int(2)', "self.primaryPartID = self.stream.get_int(2, byte_order='little')"), 'LP: keyword argument of a read'),
    ('B52', 'B', 'decodePH', PH, rep('bytes.decode(self.stream.get_mem(1))', "bytes.decode(self.stream.get_mem(1), 'latin-1')"), 'PH: another codec'),
    ('B53', 'B', 'decodeEH', EH, rep('        out = OrderedDict()\n', '        if self.symptomIDSize == 0:\n            return OrderedDict()\n        out = OrderedDict()\n'), 'EH: early return'),
    ('B54', 'B', 'decodeLP', LP, rep('        self.logicalPartLogID = self.stream.get_int(4)\n', '        self.logicalPartLogID = self.stream.get_int(4)\n        self.targetLPcount += 1\n'), 'LP: augmented assignment'),
    ('B55', 'B', 'decodeDefault', DF, rep('hexdump(mv)', 'hexdump(mv, 8)'), 'Default: hexdump with another line length'),
    ('B56', 'B', 'decodeUH', UH, lambda s: s + '\n\nUserHeader.toJSON = lambda self: OrderedDict()\n', 'UH: method replaced after the class'),
    ('B57', 'B', 'decodePH', PH, rep('        out["Created at"] = self.createTime\n', '        if self.sectionCount:\n            out["Created at"] = self.createTime\n'), 'PH: a member only shown under a condition'),
    ('B58', 'B', 'getTimestamp', PH, rep("day = stream.get_mem(1).hex()", "day = stream.get_mem(1).hex(' ')"), 'getTimestamp: hex with a separator argument'),
    ('B59', 'B', 'decodeLP', LP, rep('            _ = self.stream.get_int(2)', '            _ = self.stream.get_int(1)'), 'LP: padding of one byte'),
    ('B60', 'B', 'decodeUH', UH, rep('        out["Action Flags"] = list\n', '        out["Action Flags"] = list\n        list.append("x")\n'), 'UH: list changed after it was stored'),
    # ---------------- behaviour-preserving
    ('P01', 'P', 'getTimestamp', PH, seq(rex(r'\byear\b', 'yy'), rex(r'\bmonth\b', 'mm'), rex(r'\bmin\b', 'minute'), rep('    createTime = mm', '    result = mm'), rep('return createTime', 'return result')),
     'getTimestamp: locals renamed'),
    ('P02', 'P', 'decodeMT', MT, seq(rex(r'self\.machineType\b', 'self.mtm'), rex(r'self\.serialNumber\b', 'self._sn'), rex(r'\bout\b', 'result')), 'MT: fields and the dictionary renamed'),
    ('P03', 'P', 'decodeLP', LP, rep('"0x{:04X}".format(self.primaryPartID)', 'f"0x{self.primaryPartID:04X}"'), 'LP: f-string instead of format'),
    ('P04', 'P', 'decodeLP', LP, rep('"0x{:02X}".format(self.lpNameLength)', '"0x%02X" % self.lpNameLength'), 'LP: % instead of format'),
    ('P05', 'P', 'decodePH', PH, seq(rep('\n        out = OrderedDict()\n', '\n'), rep('    def toJSON(self) -> OrderedDict:\n', '    def toJSON(self) -> OrderedDict:\n        out = OrderedDict()\n'),
                                     rep('        self.sectionCount = 0\n        self.creatorID = ""\n', '        self.creatorID = ""\n        self.sectionCount = 0\n')),
     'PH: independent statements reordered'),
    ('P06', 'P', 'decodePH', PH, rep('self.creatorVersion = "0x{:02X}".format(self.stream.get_int(8))', 'raw_version = self.stream.get_int(8)\n        fmt_version = "0x{:02X}".format(raw_version)\n        self.creatorVersion = fmt_version'),
     'PH: temporaries extracted'),
    ('P07', 'P', 'decodeUH', UH, seq(rep('    def toJSON(self) -> OrderedDict:\n', '    def toJSON(self) -> "OrderedDict[str, object]":\n        """decode the section\n\n        (a docstring)"""\n        # a comment\n'),
                                     rep('        out = OrderedDict()\n', '        out: OrderedDict = OrderedDict()  # typed\n'), rep('self.states = self.stream.get_int(4)\n', 'self.states: int = self.stream.get_int(4)\n', 1)),
     'UH: docstring, comments, type hints'),
    ('P08', 'P', 'decodeLP', LP, seq(rep('if self.lpNameLength:', 'if self.lpNameLength != 0:'), rep('if self.targetLPcount % 2:', 'if self.targetLPcount % 2 != 0:')), 'LP: explicit != 0'),
    ('P09', 'P', 'decodeEH', EH, rep('if self.symptomIDSize != 0:', 'if self.symptomIDSize:'), 'EH: truthiness instead of != 0'),
    ('P10', 'P', 'decodeEH', EH, rep("""        if self.symptomIDSize != 0:
            self.symptomID = bytes.decode(
                self.stream.get_mem(self.symptomIDSize))
        else:
            self.symptomID = ''""", """        if self.symptomIDSize == 0:
            self.symptomID = ''
        else:
            self.symptomID = bytes.decode(
                self.stream.get_mem(self.symptomIDSize))"""), 'EH: condition negated and branches exchanged'),
    ('P11', 'P', 'decodeLP', LP, rep("""        if self.targetLPcount:
            for _ in range(self.targetLPcount):
                self.targetLPs.append(self.stream.get_int(2))""", """        for i in range(self.targetLPcount):
            self.targetLPs.append(self.stream.get_int(2))"""), 'LP: loop without its guard'),
    ('P12', 'P', 'decodeUH', UH, rep('if key & self.actionFlags:', 'if self.actionFlags & key:'), 'UH: operands of & exchanged'),
    ('P13', 'P', 'decodeMT', MT, seq(rep('        self.machineType = bytes.decode(self.stream.get_mem(8))', '        stream = self.stream\n        self.machineType = bytes.decode(stream.get_mem(8))'),
                                     rep('bytes.decode(self.stream.get_mem(12))', 'bytes.decode(stream.get_mem(12))')), 'MT: local alias for the stream'),
    ('P14', 'P', 'decodePH', PH, rep('str(self.obmcLogID)', '"{}".format(self.obmcLogID)'), 'PH: "{}".format instead of str'),
    ('P15', 'P', 'decodeDefault', DF, rep("        mv = memoryview(self.data)\n        out['Data'] = hexdump(mv)", "        out['Data'] = hexdump(self.data)"), 'Default: without the memoryview temporary'),
    ('P16', 'P', 'getTimestamp', PH, rep('createTime = month + "/" + day + "/" + year + " " + hour + ":" + min + ":" + sec', 'createTime = f"{month}/{day}/{year} {hour}:{min}:{sec}"'), 'getTimestamp: f-string'),
    ('P17', 'P', 'decodeEH', EH, rep('        self.machineType = bytes.decode(self.stream.get_mem(8))', '        raw = self.stream.get_mem(8)\n        self.machineType = bytes.decode(raw)'), 'EH: read and decode in two statements'),
    ('P18', 'P', 'decodeLP', LP, rep('if self.targetLPcount % 2:', 'if self.targetLPcount % 2 == 1:'), 'LP: odd count written as == 1'),
    ('P19', 'P', 'displayCompID', CI, seq(rep('first = (componentID >> 8) & 0xFF', 'first = (componentID // 256) % 256'), rep('second = componentID & 0xFF', 'second = componentID % 256')), 'compid: // and % instead of >> and &'),
    ('P20', 'P', 'decodeLP', LP, seq(rep(".rstrip('\\x00')", ''), rep('out["Primary Partition Name"] = self.lpName', 'out["Primary Partition Name"] = self.lpName.rstrip("\\x00")')),
     'LP: padding stripped where the name is shown'),
    ('P21', 'P', 'decodeUH', UH, seq(rep('        list = []\n', '        names = []\n'), rep('list.append(', 'names.append('), rep('out["Action Flags"] = list', 'out["Action Flags"] = names'), rex(r'\bkey\b', 'flag')), 'UH: loop locals renamed'),
    ('P22', 'P', 'decodeEH', EH, rep("self.symptomID = bytes.decode(\n                self.stream.get_mem(self.symptomIDSize))\n        else:\n            self.symptomID = ''",
                                     "self.symptomID = bytes.decode(\n                self.stream.get_mem(self.symptomIDSize))"), 'EH: else branch dropped (__init__ already stores "")'),
    ('P23', 'P', 'decodeUH', UH, rep('(self.states & 0x0000FF00) >> 8', '(self.states >> 8) & 0xFF'), 'UH: shift before mask'),
    ('P24', 'P', 'decodeDefault', DF, rep('        self.dataLength = sectionLen - 8\n        self.data = self.stream.get_mem(self.dataLength)', '        self.data = stream.get_mem(self.sectionLen - 8)'), 'Default: length temporary inlined'),
]


def run(cmd, cwd, timeout=1800):
    env = dict(os.environ, VERIF_REPO=REPO, PYTHONDONTWRITEBYTECODE='1')
    r = subprocess.run(cmd, cwd=cwd, env=env, stdout=subprocess.PIPE, stderr=subprocess.STDOUT, text=True, timeout=timeout)
    return r.returncode, r.stdout


def restore():
    run(['git', 'checkout', '--', '.'], REPO)


def tie_theorems():
    """(line, name) of the theorems of TieC02.lean"""
    out = []
    for n, line in enumerate(open(os.path.join(LEAN, 'PelProps', 'TieC02.lean')), 1):
        m = re.match(r'\s*theorem\s+(\S+)', line)
        if m:
            out.append((n, m.group(1)))
    return out


def evaluate(target):
    """-> (translated?, proved?, detail)"""
    rc, out = run([PY, os.path.join(VERIF, 'harness', 'extract.py')], VERIF)
    if rc != 0:
        return None, None, 'extract.py failed: ' + out[-300:]
    unavailable = {}
    for l in out.split('\n'):
        if l.startswith('TRANSLATION-UNAVAILABLE '):
            nm, _, why = l[len('TRANSLATION-UNAVAILABLE '):].partition(' ')
            unavailable[nm] = why
    rc, out = run(['lake', 'build', 'PelProps.TieC02'], LEAN)
    broken = []
    if rc != 0:
        ths = tie_theorems()
        for m in re.finditer(r'TieC02\.lean:(\d+):\d+', out):
            ln = int(m.group(1))
            owner = None
            for st, nm in ths:
                if st <= ln:
                    owner = nm
            if owner and owner not in broken:
                broken.append(owner)
        if not broken:
            broken.append('?')
    others = [u for u in unavailable if u != target]
    detail = ''
    if target in unavailable:
        detail = unavailable[target]
    if others:
        detail += ' [also unavailable: %s]' % ', '.join(others)
    if broken:
        detail += ' broken: ' + ', '.join(broken)
    return target not in unavailable, rc == 0, detail.strip()


def main():
    args = sys.argv[1:]
    sel = None
    if '-k' in args:
        sel = args[args.index('-k') + 1]
    rc, out = run(['git', 'status', '--porcelain'], REPO)
    if out.strip():
        sys.exit('the worktree %s is not clean:\n%s' % (REPO, out))
    rows = []
    bad = 0
    try:
        t, p, d = evaluate('-')
        print('%-4s %-1s %-14s %-11s %-9s %s' % ('id', 'k', 'function', 'translated', 'tie', 'verdict / description'))
        print('%-4s %-1s %-14s %-11s %-9s %s' % ('base', '-', '(all)', 'yes' if not d else 'NO', 'proved' if p else 'BROKEN', ('unexpected: ' + d) if d or not p else 'clean tree'))
        if d or not p:
            bad += 1
        for mid, kind, target, path, edit, desc in MUTANTS:
            if sel and sel not in mid and sel not in target:
                continue
            full = os.path.join(REPO, path)
            text = open(full, encoding='utf-8').read()
            try:
                new = edit(text)
            except RuntimeError as e:
                print('%-4s %-1s %-14s %-11s %-9s MUTANT DOES NOT APPLY: %s' % (mid, kind, target, '-', '-', e))
                bad += 1
                continue
            try:
                compile(new, full, 'exec')
            except SyntaxError as e:
                print('%-4s %-1s %-14s %-11s %-9s MUTANT IS NOT PYTHON: %s' % (mid, kind, target, '-', '-', e))
                bad += 1
                continue
            with open(full, 'w', encoding='utf-8') as f:
                f.write(new)
            try:
                t, p, d = evaluate(target)
            finally:
                restore()
            if t is None:
                verdict = 'ERROR ' + d
                bad += 1
            elif not t:
                verdict = 'ok (unavailable)' if kind == 'B' else 'acceptable (unavailable)'
            elif p:
                verdict = 'ok (still proved)' if kind == 'P' else '*** MISSED: behaviour change still proved ***'
                bad += kind == 'B'
            else:
                verdict = 'ok (tie broken)' if kind == 'B' else 'FALSE ALARM (tie broken on a harmless rewrite)'
            print('%-4s %-1s %-14s %-11s %-9s %s | %s%s' % (mid, kind, target, 'yes' if t else 'UNAVAILABLE', ('proved' if p else 'BROKEN') if t else '-',
                                                          verdict, desc, (' | ' + d) if d else ''))
            sys.stdout.flush()
            rows.append((mid, kind, t, p))
    finally:
        restore()
        evaluate('-')
    nb = [r for r in rows if r[1] == 'B']
    npp = [r for r in rows if r[1] == 'P']
    print('behaviour-changing: %d mutants, %d tie broken, %d unavailable, %d MISSED' % (
        len(nb), sum(1 for r in nb if r[2] and not r[3]), sum(1 for r in nb if not r[2]), sum(1 for r in nb if r[2] and r[3])))
    print('behaviour-preserving: %d rewrites, %d still proved, %d unavailable, %d tie broken' % (
        len(npp), sum(1 for r in npp if r[2] and r[3]), sum(1 for r in npp if not r[2]), sum(1 for r in npp if r[2] and not r[3])))
    sys.exit(1 if bad else 0)


if __name__ == '__main__':
    main()
