#!/usr/bin/env python3
"""
Confirm a seeded change independently of whoever wrote it:
  tools/seedverify.py <dir with patch.diff demo.py meta.json>
In a fresh scratch worktree of /repo (under /tmp, removed afterwards):
  1. demo.py passes (exit 0) on the unmodified tree
  2. the patch applies, the repository's own test suite still passes (55 passed)
  3. demo.py fails (exit != 0) with the patch
Prints a JSON summary; exit 0 iff all three hold.
"""
import json, os, subprocess, sys, tempfile, shutil, re

def sh(cmd, cwd=None, env=None, timeout=900):
    p = subprocess.run(cmd, cwd=cwd, env=env, capture_output=True, text=True, timeout=timeout)
    return p.returncode, (p.stdout + p.stderr)

def main():
    d = os.path.abspath(sys.argv[1])
    wt = tempfile.mkdtemp(prefix='seedverify_', dir='/tmp')
    os.rmdir(wt)
    res = {'dir': d}
    try:
        subprocess.run(['git', '-C', '/repo', 'worktree', 'add', '--detach', wt, 'HEAD'], check=True, capture_output=True)
        env = dict(os.environ, PYTHONPATH=os.path.join(wt, 'modules'), PYTHONDONTWRITEBYTECODE='1', REPO_ROOT=wt)
        demo = os.path.join(d, 'demo.py')
        rc, out = sh(['/venv/bin/python', demo], cwd=wt, env=env)
        res['demo_clean_rc'] = rc
        res['demo_clean_tail'] = out[-300:]
        rc, out = sh(['git', '-C', wt, 'apply', os.path.join(d, 'patch.diff')])
        res['apply_rc'] = rc
        rc, out = sh(['/venv/bin/python', '-m', 'pytest', '-q', '-p', 'no:cacheprovider', '--timeout=900'], cwd=wt,
                     env=dict(os.environ, PYTHONDONTWRITEBYTECODE='1'))
        m = re.search(r'(\d+) passed', out)
        res['tests_rc'] = rc
        res['tests_passed'] = int(m.group(1)) if m else 0
        res['tests_failed'] = bool(re.search(r'\d+ (failed|error)', out))
        rc, out = sh(['/venv/bin/python', demo], cwd=wt, env=env)
        res['demo_patched_rc'] = rc
        res['demo_patched_tail'] = out[-600:]
    finally:
        subprocess.run(['git', '-C', '/repo', 'worktree', 'remove', '--force', wt], capture_output=True)
        shutil.rmtree(wt, ignore_errors=True)
    res['confirmed'] = (res.get('demo_clean_rc') == 0 and res.get('apply_rc') == 0 and res.get('tests_rc') == 0
                        and res.get('tests_passed') == 55 and not res.get('tests_failed') and res.get('demo_patched_rc') not in (0, None))
    print(json.dumps(res, indent=1))
    return 0 if res['confirmed'] else 1

if __name__ == '__main__':
    sys.exit(main())
