#!/usr/bin/env python3
"""tools/mutation_table.py [--write]: the markdown table of seeded changes (seeded/*/meta.json) and of the harmless refactorings (harmless/*/meta.json)
for DESIGN.md §9; --write puts it between the MUTATION-TABLE markers of DESIGN.md."""
import json, os, glob, sys
V = os.path.dirname(os.path.dirname(os.path.abspath(__file__)))


def cell(x, n):
    x = (x or '').replace('|', '\\|').replace('\n', ' ')
    return x if len(x) <= n else x[:n - 1] + '…'


rows, n, own, any_ = [], 0, 0, 0
for m in sorted(glob.glob(os.path.join(V, 'seeded', '*', 'meta.json'))):
    d = json.load(open(m))
    hist = [h for h in d.get('history', []) if h.get('caught_by') is not None]
    first = hist[0]['caught_by'] if hist else d['caught_by']
    n += 1
    own += bool(d.get('own_property_check_catches'))
    any_ += bool(d['caught_by'])
    rows.append('| %s | %s | %s | %s | %s |' % (d['id'], cell(d.get('summary'), 150), cell(d.get('needs'), 170), ', '.join(first) or '**missed**',
                                                 ', '.join(d['caught_by']) or '**missed**'))
out = ['| Seed | Change | Needs | Caught at its first run by | Caught now by |', '|---|---|---|---|---|'] + rows
out.append('')
out.append('%d seeded changes; %d caught by at least one check, %d caught by the check of the property they were written against (the full texts, the patches and the '
           'demonstrations are in `seeded/<id>/`; "first run" = the state of the harness when the change was first tried, see `history` in each `meta.json`).' % (n, any_, own))
hm = sorted(glob.glob(os.path.join(V, 'harmless', '*', 'meta.json')))
al = [(os.path.basename(os.path.dirname(m)), json.load(open(m)).get('alarms', [])) for m in hm]
out.append('')
out.append('%d behaviour-preserving refactorings (`harmless/<id>/`), each run against all twenty quick checks with the source ties in place: %s.'
           % (len(al), 'no alarm' if not any(a for _, a in al) else 'alarms: ' + '; '.join('%s: %s' % (i, ','.join(a)) for i, a in al if a)))
text = '\n'.join(out)
if '--write' in sys.argv:
    p = os.path.join(V, 'DESIGN.md')
    s = open(p).read()
    a, b = s.index('<!-- MUTATION-TABLE-BEGIN -->'), s.index('<!-- MUTATION-TABLE-END -->')
    s = s[:a] + '<!-- MUTATION-TABLE-BEGIN -->\n' + text + '\n' + s[b:]
    open(p, 'w').write(s)
    print('written: %d rows' % n)
else:
    print(text)
