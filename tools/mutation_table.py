#!/usr/bin/env python3
"""tools/mutation_table.py: print the markdown table of seeded changes (seeded/*/meta.json) for DESIGN.md §9."""
import json, os, glob
V = os.path.dirname(os.path.dirname(os.path.abspath(__file__)))
rows = []
for m in sorted(glob.glob(os.path.join(V, 'seeded', '*', 'meta.json'))):
    d = json.load(open(m))
    first = d['history'][0]['caught_by'] if d.get('history') else d['caught_by']
    def cell(x):
        return (x or '').replace('|', '\\|').replace('\n', ' ')
    needs = cell(d.get('needs'))
    if len(needs) > 230:
        needs = needs[:227] + '…'
    summ = cell(d.get('summary'))
    if len(summ) > 200:
        summ = summ[:197] + '…'
    rows.append('| %s | %s | %s | %s | %s |' % (d['id'], summ, needs, ', '.join(first) or '**missed**', ', '.join(d['caught_by']) or '**missed**'))
print('| Seed | Change | Needs | Caught at first run by | Caught now by |')
print('|---|---|---|---|---|')
print('\n'.join(rows))
n = len(rows)
own = sum(1 for m in glob.glob(os.path.join(V, 'seeded', '*', 'meta.json')) if json.load(open(m)).get('own_property_check_catches'))
any_ = sum(1 for m in glob.glob(os.path.join(V, 'seeded', '*', 'meta.json')) if json.load(open(m)).get('caught_by'))
print('\n%d seeded changes; %d caught by at least one check, %d caught by the check of the property they were written against.' % (n, any_, own))
