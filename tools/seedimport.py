#!/usr/bin/env python3
"""tools/seedimport.py <seed root> <variants e.g. E,F>: confirm each <root>/Cxx/out/<v>/ with tools/seedverify.py and copy the confirmed ones to
   /verif/seeded/Cxx-<v>/ (patch.diff, demo.py, meta.json without results).  tools/seedrerun.py --record fills in which checks catch them."""
import json, os, shutil, subprocess, sys
from concurrent.futures import ThreadPoolExecutor
root, variants = sys.argv[1], sys.argv[2].split(',')
V = os.path.dirname(os.path.dirname(os.path.abspath(__file__)))
jobs = []
for c in sorted(os.listdir(root)):
    for v in variants:
        d = os.path.join(root, c, 'out', v)
        if os.path.exists(os.path.join(d, 'patch.diff')) and os.path.exists(os.path.join(d, 'demo.py')):
            if not os.path.exists(os.path.join(V, 'seeded', '%s-%s' % (c, v), 'meta.json')):
                jobs.append((c, v, d))


def one(j):
    c, v, d = j
    p = subprocess.run([os.path.join(V, 'tools', 'seedverify.py'), d], capture_output=True, text=True)
    try:
        ver = json.loads(p.stdout)
    except Exception:
        ver = {'confirmed': False, 'error': (p.stdout + p.stderr)[-500:]}
    return c, v, d, ver


with ThreadPoolExecutor(4) as ex:
    for c, v, d, ver in ex.map(one, jobs):
        sid = '%s-%s' % (c, v)
        if not ver.get('confirmed'):
            print(sid, 'NOT CONFIRMED', json.dumps(ver)[:600])
            continue
        dst = os.path.join(V, 'seeded', sid)
        os.makedirs(dst, exist_ok=True)
        shutil.copy(os.path.join(d, 'patch.diff'), dst)
        shutil.copy(os.path.join(d, 'demo.py'), dst)
        am = {}
        try:
            am = json.load(open(os.path.join(d, 'meta.json')))
        except Exception:
            pass
        meta = {'id': sid, 'property': c, 'author': 'independent sub-agent given only the property text and a scratch worktree',
                'summary': am.get('summary'), 'violates': am.get('violates'), 'needs': am.get('needs'), 'files': am.get('files'),
                'confirmed': {'how': 'tools/seedverify.py in a fresh scratch worktree of /repo: demo.py exits 0 on the clean tree; patch applies; '
                                     'repository test suite 55 passed with the patch; demo.py exits non-zero with the patch',
                              'tests_passed_with_patch': ver.get('tests_passed'), 'demo_clean_rc': ver.get('demo_clean_rc'),
                              'demo_patched_rc': ver.get('demo_patched_rc'), 'demo_patched_tail': (ver.get('demo_patched_tail') or '')[-300:]},
                'checks_run': 'tools/seedrerun.py: patch applied in an isolated worktree of /repo (VERIF_REPO); all twenty ./check Cxx --tier quick; worktree restored',
                'caught_by': [], 'own_property_check_catches': False, 'history': []}
        json.dump(meta, open(os.path.join(dst, 'meta.json'), 'w'), indent=1)
        print(sid, 'confirmed')
