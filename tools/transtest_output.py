#!/venv/bin/python
"""
Self-test of the source tie of the output naming and the JSON aligner (harness/trans_output.py, lean/PelProps/TieC01.lean `buildOutput`,
lean/PelProps/TieC06.lean `keyEndIndex` / `prettyPrint`).

Applies source MUTANTS one at a time to the repository worktree named by VERIF_REPO (never /repo), regenerates
lean/PelGen/GenOutput.lean with harness/extract.py, builds PelProps.TieC01 and PelProps.TieC06 and prints a table

    mutant | kind | function | translated? | tie proved? | verdict

kind B = behaviour-changing (expected: tie BROKEN or translation UNAVAILABLE, never proved),
kind P = behaviour-preserving (ideally still proved, UNAVAILABLE acceptable, BROKEN reported).
The worktree is always restored (`git checkout -- .`) and the generated file regenerated from the clean tree.

    VERIF_REPO=/tmp/work/T10/repo tools/transtest_output.py [-k substring]
"""
import os
import re
import subprocess
import sys

VERIF = os.path.dirname(os.path.dirname(os.path.abspath(__file__)))
REPO = os.environ.get('VERIF_REPO')
if not REPO or os.path.realpath(REPO) == '/repo':
    sys.exit('set VERIF_REPO to a scratch worktree (never /repo)')
PY = '/venv/bin/python'
LEAN = os.path.join(VERIF, 'lean')
SRC = 'modules/pel/peltool/peltool.py'
TIES = {'TieC01': ['buildOutput'], 'TieC06': ['keyEndIndex', 'prettyPrint', 'prettyPrintDefaultSpace']}
# theorem of a Tie module -> generated definitions it depends on (a broken theorem is attributed to these functions)
OWN = {'buildOutput': ['buildOutput'], 'buildOutput_numbering': ['buildOutput'],
       'keyEndIndex': ['keyEndIndex'], 'key_scan_complete': ['keyEndIndex'],
       'prettyPrint': ['prettyPrint', 'keyEndIndex'], 'aligned_is_structural': ['prettyPrint', 'keyEndIndex'],
       'printed_parses_back': ['prettyPrint', 'keyEndIndex'], 'prettyPrintDefaultSpace': ['prettyPrintDefaultSpace']}


def rep(old, new, count=1):
    def f(text):
        if text.count(old) != count:
            raise RuntimeError('pattern %r occurs %d times, expected %d' % (old, text.count(old), count))
        return text.replace(old, new)
    return f


def seq(*fs):
    def f(text):
        for g in fs:
            text = g(text)
        return text
    return f


def region(start, end, f):
    """apply f between the first occurrence of `start` and the next occurrence of `end`"""
    def g(text):
        i = text.index(start)
        j = text.index(end, i)
        return text[:i] + f(text[i:j]) + text[j:]
    return g


def nth(old, new, k):
    """replace the k-th (0-based) occurrence"""
    def f(text):
        parts = text.split(old)
        if len(parts) <= k + 1:
            raise RuntimeError('pattern %r has no occurrence %d' % (old, k))
        return old.join(parts[:k + 1]) + new + old.join(parts[k + 1:])
    return f


def rex(pat, new):
    def f(text):
        out, n = re.subn(pat, new, text)
        if n == 0:
            raise RuntimeError('pattern %r matched nothing' % pat)
        return out
    return f


K, PP, BO, DS = 'keyEndIndex', 'prettyPrint', 'buildOutput', 'prettyPrintDefaultSpace'
IN_K = lambda f: region('def keyEndIndex', 'def prettyPrint', f)
IN_P = lambda f: region('def prettyPrint', 'def considerPELIfSeverityMatches', f)
IN_B = lambda f: region('def buildOutput', 'def keyEndIndex', f)
NAME0 = '        name = list(sections[section_num].keys())[0]\n'

# (id, kind, function(s) concerned, edit, description)
MUTANTS = [
    # ---------------- behaviour-changing: keyEndIndex
    ('B01', 'B', K, rep('            i += 2\n', '            i += 1\n'), 'keyEndIndex: the character after a backslash is not skipped (the old defect D2 in the new shape)'),
    ('B02', 'B', K, rep('if line[i] == "\\\\":', 'if line[i] == "/":'), 'keyEndIndex: the escape character is a slash'),
    ('B03', 'B', K, rep("elif line[i] == '\"':", 'elif line[i] == "\'":'), 'keyEndIndex: the closing quote is an apostrophe'),
    ('B04', 'B', K, rep('== ":" else -1', '== ";" else -1'), 'keyEndIndex: the separator after the key is a semicolon'),
    ('B05', 'B', K, rep('line[i + 1:i + 2]', 'line[i + 1:i + 3]'), 'keyEndIndex: two characters compared with the colon'),
    ('B06', 'B', K, rep('return i if line[i + 1:i + 2] == ":" else -1', 'return -1 if line[i + 1:i + 2] == ":" else i'), 'keyEndIndex: results of the colon test exchanged'),
    ('B07', 'B', K, rep('line.lstrip(" ")', 'line.lstrip("\\t")'), 'keyEndIndex: tabs stripped instead of blanks'),
    ('B08', 'B', K, rep('if i >= len(line) or', 'if i > len(line) or'), 'keyEndIndex: >= -> > (IndexError on a blank line)'),
    ('B09', 'B', K, rep('        return -1\n    i += 1\n', '        return -1\n'), 'keyEndIndex: the opening quote is not stepped over (statement dropped)'),
    ('B10', 'B', K, rep('while i < len(line):', 'while i < len(line) - 1:'), 'keyEndIndex: loop bound len - 1'),
    ('B11', 'B', K, rep('            i += 1\n    return -1\n', '            i += 1\n    return 0\n'), 'keyEndIndex: 0 instead of -1 when the text ends inside the key'),
    ('B12', 'B', K, rep('        else:\n            i += 1\n', '        else:\n            i += 2\n'), 'keyEndIndex: plain characters advance by 2'),
    ('B13', 'B', K, rep("line[i] != '\"':", "line[i] == '\"':"), 'keyEndIndex: test of the opening quote negated'),
    ('B14', 'B', K, rep('line[i + 1:i + 2]', 'line[i:i + 1]'), 'keyEndIndex: the quote itself compared with the colon'),
    ('B15', 'B', K, rep('    if i >= len(line) or line[i] != \'"\':\n        return -1\n', '    if line[i] != \'"\':\n        return -1\n'), 'keyEndIndex: length guard dropped (IndexError on a blank line)'),
    ('B16', 'B', K, rep('        return -1\n    i += 1\n', '        return -1\n    i += 2\n'), 'keyEndIndex: the scan starts one character late'),
    ('B17', 'B', K, rep('i = len(line) - len(line.lstrip(" "))', 'i = len(line) - len(line.strip(" "))'), 'keyEndIndex: strip on both sides (unknown method)'),
    ('B18', 'B', K, rep('        if line[i] == "\\\\":\n            i += 2\n        elif', '        if line[i] == "\\\\" and i + 1 < len(line):\n            i += 2\n        elif'),
     'keyEndIndex: a trailing backslash falls through to the other tests (loops forever on "…\\\\" : no increment on that path)'),
    ('B19', 'B', K, rep('        else:\n            i += 1\n    return -1', '        else:\n            i += 1\n            if i == 7:\n                i -= 1\n    return -1'), 'keyEndIndex: an index decrement (variant check)'),
    # ---------------- behaviour-changing: prettyPrint
    ('B20', 'B', PP, rep('CHARACTER_SPACE = 2', 'CHARACTER_SPACE = 1'), 'prettyPrint: CHARACTER_SPACE = 1 (padding before the colon\'s blank)'),
    ('B21', 'B', DS, rep('desiredSpace: int = 34', 'desiredSpace: int = 35'), 'prettyPrint: default column 35'),
    ('B22', 'B', PP, rep('if "{" not in line', 'if "}" not in line'), 'prettyPrint: lines with a closing brace are skipped instead'),
    ('B23', 'B', PP, rep('if ind >= 0:', 'if ind > 0:'), 'prettyPrint: >= 0 -> > 0'),
    ('B24', 'B', PP, rep('(desiredSpace - ind) * " "', '(desiredSpace - ind - 1) * " "'), 'prettyPrint: one blank less'),
    ('B25', 'B', PP, rep('(desiredSpace - ind) * " "', '(desiredSpace - ind) * "."'), 'prettyPrint: padding with dots'),
    ('B26', 'B', PP, rep('Mdata.split("\\n")', 'Mdata.split("\\r")'), 'prettyPrint: split at carriage returns'),
    ('B27', 'B', PP, rep("'\\n'.join(lines)", "'\\r\\n'.join(lines)"), 'prettyPrint: joined with CR LF'),
    ('B28', 'B', PP, rep('line[:ind] + spaces + line[ind:]', 'line[:ind] + line[ind:] + spaces'), 'prettyPrint: padding appended at the end of the line'),
    ('B29', 'B', PP, rep('            ind += CHARACTER_SPACE\n', ''), 'prettyPrint: ind += CHARACTER_SPACE dropped (padding inside the key)'),
    ('B30', 'B', PP, rep('for i in range(len(lines)):', 'for i in range(len(lines) - 1):'), 'prettyPrint: last line not visited'),
    ('B31', 'B', PP, rep('ind = keyEndIndex(line) if "{" not in line else -1', 'ind = keyEndIndex(line)'), 'prettyPrint: lines with an opening brace aligned too'),
    ('B32', 'B', PP, rep('lines[i] = line[:ind]', 'lines[0] = line[:ind]'), 'prettyPrint: every aligned line stored in slot 0'),
    ('B33', 'B', PP, rep('if "{" not in line else -1', 'if "{" not in line else 0'), 'prettyPrint: brace lines treated as key end 0'),
    ('B34', 'B', PP, rep('        ind = keyEndIndex(line) if "{" not in line else -1\n        if ind >= 0:\n', '        if "\\":" in line and "{" not in line:\n            ind = line.index("\\":")\n'),
     'prettyPrint: defect D2 itself (first `":` of the line, fix reverted)'),
    ('B35', 'B', PP, rep('spaces = (desiredSpace - ind) * " "    # Calculating spaces needed to add to get the desired spacing.\n            ind += CHARACTER_SPACE\n',
                         'ind += CHARACTER_SPACE\n            spaces = (desiredSpace - ind) * " "\n'), 'prettyPrint: two dependent statements exchanged'),
    ('B36', 'B', PP, rep('line[:ind] + spaces + line[ind:]', 'line[:ind] + spaces + line[ind + 1:]'), 'prettyPrint: a character dropped'),
    ('B37', 'B', PP, rep('ind = keyEndIndex(line) if', 'ind = keyEndIndex(line.lstrip(" ")) if'), 'prettyPrint: callee called on the stripped line'),
    # ---------------- behaviour-changing: buildOutput
    ('B40', 'B', BO, rep('counts[name] = [1, 0]', 'counts[name] = [1, 1]'), 'buildOutput: numbering starts at 1'),
    ('B41', 'B', BO, rep('counts[name][0]+1, 0]', 'counts[name][0]+2, 0]'), 'buildOutput: occurrences counted in steps of 2'),
    ('B42', 'B', BO, rep('if counts[name][0] == 1:', 'if counts[name][0] <= 2:'), 'buildOutput: names occurring twice stay bare'),
    ('B43', 'B', BO, rep("name + ' ' + str(modifier)", "name + '_' + str(modifier)"), 'buildOutput: separator of the number'),
    ('B44', 'B', BO, rep('            counts[name][1] = modifier + 1\n', ''), 'buildOutput: counter not advanced (statement dropped)'),
    ('B45', 'B', BO, rep('counts[name][1] = modifier + 1', 'counts[name][1] = modifier + 2'), 'buildOutput: counter advanced by 2'),
    ('B46', 'B', BO, rep('modifier = counts[name][1]', 'modifier = counts[name][0]'), 'buildOutput: numbered with the number of occurrences'),
    ('B47', 'B', BO, nth('for section_num in range(len(sections)):', 'for section_num in range(len(sections) - 1):', 1), 'buildOutput: last section not stored'),
    ('B48', 'B', BO, rep('out[name] = sections[section_num][name]', 'out[name] = sections[0][name]'), 'buildOutput: value taken from the first section'),
    ('B49', 'B', BO, rep('if counts[name][0] == 1:', 'if counts[name][0] != 1:'), 'buildOutput: the two branches exchanged'),
    ('B50', 'B', BO, rep('if name not in counts:', 'if name in counts:'), 'buildOutput: membership test negated (KeyError)'),
    ('B51', 'B', BO, rep('str(modifier)]', 'str(modifier + 1)]'), 'buildOutput: shown number one too high'),
    ('B52', 'B', BO, rep('[counts[name][0]+1, 0]', '[counts[name][0]+1, counts[name][0]]'), 'buildOutput: counter initialised from the occurrences'),
    ('B53', 'B', BO, rep('            counts[name][1] = modifier + 1\n', '            counts[name][0] = modifier + 1\n'), 'buildOutput: the other slot of the pair updated'),
    ('B54', 'B', BO, nth('for section_num in range(len(sections)):', 'for section_num in range(1, len(sections)):', 0), 'buildOutput: first section not counted (range with a start)'),
    ('B55', 'B', BO, rep('            out[name] = sections[section_num][name]\n', '            try:\n                out[name] = sections[section_num][name]\n            except KeyError:\n                pass\n'), 'buildOutput: try/except'),
    ('B56', 'B', BO, rep('            out[name] = sections[section_num][name]\n', '            out[name] = sections[section_num][name]\n            out["Count"] = name\n'), 'buildOutput: an extra member stored'),
    ('B57', 'B', BO, seq(rep("            out[name + ' ' + str(modifier)] = sections[section_num][name]\n            counts[name][1] = modifier + 1\n",
                             "            counts[name][1] = modifier + 1\n            modifier = counts[name][1]\n            out[name + ' ' + str(modifier)] = sections[section_num][name]\n")),
     'buildOutput: counter advanced before it is used'),
    ('B58', 'B', BO, rep('    counts = {}\n', '    counts = {"Unknown": [2, 0]}\n'), 'buildOutput: a pre-filled dictionary'),
    ('B59', 'B', BO, rep('            counts[name][1] = modifier + 1\n', '            entry = counts[name]\n            counts[name] = [entry[0], modifier + 1]\n            entry[1] = 0\n'), 'buildOutput: an alias of the inner list is written through'),
    ('B63', 'B', BO, rep('out[name] = sections[section_num][name]', 'out[name] = sections[section_num - 1][name]'), 'buildOutput: value taken from the previous section (index -1 = the last one)'),
    ('B64', 'B', BO, seq(rep('    counts = {}\n', '    counts = {}\n    first = [1, 0]\n'), rep('counts[name] = [1, 0]', 'counts[name] = first')), 'buildOutput: every name shares ONE counter list (aliasing)'),
    ('B65', 'B', PP, rep('        line = lines[i]\n', '        line = lines[-1]\n'), 'prettyPrint: always the last line'),
    ('B66', 'B', K, rep('            i += 2\n', '            i += 2\n            continue\n'), 'keyEndIndex: continue in the loop'),
    # ---------------- module level
    ('B60', 'B', K + ',' + PP, lambda s: s + '\n\ndef keyEndIndex(line):\n    return -1\n', 'keyEndIndex redefined at the end of the module'),
    ('B61', 'B', K + ',' + PP + ',' + BO, rep('def buildOutput(', 'len = lambda x: 0\n\n\ndef buildOutput('), 'the builtin len rebound at module level'),
    ('B62', 'B', BO, rep('def buildOutput(sections: list, out: OrderedDict):', 'def buildOutput(out: OrderedDict, sections: list):'), 'buildOutput: parameters exchanged (the call site passes sections first)'),
    # ---------------- behaviour-preserving
    ('P01', 'P', K, IN_K(seq(rex(r'\bline\b', 'text'), rex(r'\bi\b', 'pos'))), 'keyEndIndex: parameter and local renamed'),
    ('P02', 'P', K, IN_K(lambda s: s.replace('i += 1', 'i = i + 1').replace('i += 2', 'i = i + 2')), 'keyEndIndex: += written out'),
    ('P03', 'P', K, rep('while i < len(line):', 'while len(line) > i:'), 'keyEndIndex: loop condition written the other way round'),
    ('P04', 'P', K, seq(rep('def keyEndIndex(line: str) -> int:', 'def keyEndIndex(line: "str") -> "int":'),
                        rep('    i = len(line) - len(line.lstrip(" "))\n', '    # position of the first character that is not a blank\n    i: int = len(line) - len(line.lstrip(" "))\n'),
                        rep('    while i < len(line):\n', '    while i < len(line):\n        """one character (or one escape) per pass"""\n')), 'keyEndIndex: comments, a docstring-like string, type hints'),
    ('P05', 'P', K, rep('        if line[i] == "\\\\":\n            i += 2\n        elif line[i] == \'"\':', '        ch = line[i]\n        if ch == "\\\\":\n            i += 2\n        elif ch == \'"\':'), 'keyEndIndex: the character read into a temporary'),
    ('P06', 'P', K, rep('    if i >= len(line) or line[i] != \'"\':\n        return -1\n', '    if i >= len(line):\n        return -1\n    if line[i] != \'"\':\n        return -1\n'), 'keyEndIndex: `or` as two early returns'),
    ('P07', 'P', K, rep('        if line[i] == "\\\\":\n            i += 2\n        elif line[i] == \'"\':\n            return i if line[i + 1:i + 2] == ":" else -1\n',
                        '        if line[i] == \'"\':\n            return i if line[i + 1:i + 2] == ":" else -1\n        elif line[i] == "\\\\":\n            i += 2\n'), 'keyEndIndex: two disjoint branches exchanged'),
    ('P08', 'P', K, rep('            return i if line[i + 1:i + 2] == ":" else -1\n', '            if line[i + 1:i + 2] == ":":\n                return i\n            return -1\n'), 'keyEndIndex: conditional expression as statements'),
    ('P09', 'P', K, rep('    if i >= len(line) or line[i] != \'"\':', '    if len(line) <= i or \'"\' != line[i]:'), 'keyEndIndex: comparisons written the other way round'),
    ('P10', 'P', K, rep('    i = len(line) - len(line.lstrip(" "))\n', '    stripped = line.lstrip(" ")\n    n = len(line)\n    i = n - len(stripped)\n'), 'keyEndIndex: temporaries before the loop'),
    ('P11', 'P', K, rep('            return i if line[i + 1:i + 2] == ":" else -1\n', '            return -1 if line[i + 1:i + 2] != ":" else i\n'), 'keyEndIndex: colon test negated with the results exchanged'),
    ('P20', 'P', PP, IN_P(seq(rex(r'\bMdata\b', 'text'), rex(r'\blines\b', 'rows'), rex(r'\bline\b', 'row'), rex(r'\bind\b', 'pos'), rex(r'\bi\b', 'n'))), 'prettyPrint: parameter and locals renamed'),
    ('P21', 'P', PP, seq(rep('    CHARACTER_SPACE = 2\n', ''), rep('ind += CHARACTER_SPACE', 'ind += 2')), 'prettyPrint: constant inlined'),
    ('P22', 'P', PP, rep('        ind = keyEndIndex(line) if "{" not in line else -1\n', '        if "{" in line:\n            ind = -1\n        else:\n            ind = keyEndIndex(line)\n'), 'prettyPrint: conditional expression as a statement'),
    ('P23', 'P', PP, rep('            lines[i] = line[:ind] + spaces + line[ind:]\n', '            head = line[:ind]\n            tail = line[ind:]\n            lines[i] = head + spaces + tail\n'), 'prettyPrint: slices in temporaries'),
    ('P24', 'P', PP, rep('(desiredSpace - ind) * " "', '" " * (desiredSpace - ind)'), 'prettyPrint: operands of * exchanged'),
    ('P25', 'P', PP, rep("    return '\\n'.join(lines)\n", "    result = '\\n'.join(lines)\n    return result\n"), 'prettyPrint: result in a temporary'),
    ('P26', 'P', PP, rep('    CHARACTER_SPACE = 2\n    lines = Mdata.split("\\n")\n', '    lines = Mdata.split("\\n")\n    CHARACTER_SPACE = 2\n'), 'prettyPrint: independent statements reordered'),
    ('P27', 'P', PP, rep('        if ind >= 0:\n', '        if 0 <= ind:\n'), 'prettyPrint: comparison written the other way round'),
    ('P28', 'P', PP, rep('line[:ind] + spaces + line[ind:]', 'line[:ind] + (spaces + line[ind:])'), 'prettyPrint: concatenation grouped differently'),
    ('P29', 'P', PP, rep('        if ind >= 0:\n', '        if not ind < 0:\n'), 'prettyPrint: not (ind < 0)'),
    ('P40', 'P', BO, IN_B(seq(rex(r'\bsection_num\b', 'k'), rex(r'\bname\b', 'title'), rex(r'\bcounts\b', 'seen'), rex(r'\bmodifier\b', 'number'),
                              rex(r'\bsections\b', 'parts'), rex(r'\bout\b', 'result'))), 'buildOutput: parameters and locals renamed'),
    ('P41', 'P', BO, nth(NAME0, '        sec = sections[section_num]\n        name = list(sec.keys())[0]\n', 1), 'buildOutput: the section in a temporary (second loop)'),
    ('P42', 'P', BO, rep('counts[name][0]+1, 0]', '1 + counts[name][0], 0]'), 'buildOutput: operands of + exchanged'),
    ('P43', 'P', BO, rep('if counts[name][0] == 1:', 'if 1 == counts[name][0]:'), 'buildOutput: comparison written the other way round'),
    ('P44', 'P', BO, rep('        if name not in counts:\n            counts[name] = [1, 0]\n        else:\n            counts[name] = [counts[name][0]+1, 0]\n',
                         '        if name in counts:\n            counts[name] = [counts[name][0]+1, 0]\n        else:\n            counts[name] = [1, 0]\n'), 'buildOutput: test negated with the branches exchanged'),
    ('P45', 'P', BO, rep("name + ' ' + str(modifier)", "name + (' ' + str(modifier))"), 'buildOutput: concatenation grouped differently'),
    ('P46', 'P', BO, lambda s: s.replace('list(sections[section_num].keys())[0]', 'list(sections[section_num])[0]'), 'buildOutput: list(d) instead of list(d.keys())'),
    ('P47', 'P', BO, seq(rep('    counts = {}\n', '    counts = {}\n    n = len(sections)\n'), lambda s: s.replace('range(len(sections))', 'range(n)')), 'buildOutput: the length in a temporary'),
    ('P48', 'P', BO, rep("            modifier = counts[name][1]\n            out[name + ' ' + str(modifier)] = sections[section_num][name]\n",
                         "            modifier = counts[name][1]\n            value = sections[section_num][name]\n            out[name + ' ' + str(modifier)] = value\n"), 'buildOutput: the stored value in a temporary'),
    ('P49', 'P', BO, rep("        if counts[name][0] == 1:\n            out[name] = sections[section_num][name]\n        else:\n            modifier = counts[name][1]\n            out[name + ' ' + str(modifier)] = sections[section_num][name]\n            counts[name][1] = modifier + 1\n",
                         "        if counts[name][0] != 1:\n            modifier = counts[name][1]\n            out[name + ' ' + str(modifier)] = sections[section_num][name]\n            counts[name][1] = modifier + 1\n        else:\n            out[name] = sections[section_num][name]\n"),
     'buildOutput: test negated with the branches exchanged (second loop)'),
    ('P50', 'P', BO, seq(rep('def buildOutput(sections: list, out: OrderedDict):\n', 'def buildOutput(sections: "list[dict]", out: "OrderedDict[str, object]") -> None:\n    """number the section names"""\n'),
                         rep('    counts = {}\n', '    counts: dict = {}  # name -> [occurrences, next number]\n')), 'buildOutput: docstring, comments, type hints'),
    ('P51', 'P', BO, nth(NAME0, '        name = list(sections[section_num].keys())[-1]\n        name = name[0:]\n        if len(sections[section_num]) != 1:\n            name = name + "?"\n', 1),
     'buildOutput: last key, and a different name for sections that do not have exactly one member (preserving on the one-member dictionaries sectionFun produces, the domain of the tie)'),
]


def run(cmd, cwd, timeout=1800):
    env = dict(os.environ, VERIF_REPO=REPO, PYTHONDONTWRITEBYTECODE='1')
    r = subprocess.run(cmd, cwd=cwd, env=env, stdout=subprocess.PIPE, stderr=subprocess.STDOUT, text=True, timeout=timeout)
    return r.returncode, r.stdout


def restore():
    run(['git', 'checkout', '--', '.'], REPO)


def tie_theorems(mod):
    """(line, name) of the theorems of a Tie module"""
    out = []
    prev = ''
    for n, line in enumerate(open(os.path.join(LEAN, 'PelProps', mod + '.lean')), 1):
        m = re.match(r'\s*theorem\s+(\S+)', line)
        if m:
            k = n
            if prev.strip().startswith('set_option'):
                k -= 1
            out.append((k, m.group(1)))
        prev = line
    return out


def evaluate(targets):
    """-> (translated?, proved?, detail)"""
    rc, out = run([PY, os.path.join(VERIF, 'harness', 'extract.py')], VERIF)
    if rc != 0:
        return None, None, 'extract.py failed: ' + out[-300:]
    unavailable = {}
    for l in out.split('\n'):
        if l.startswith('TRANSLATION-UNAVAILABLE '):
            nm, _, why = l[len('TRANSLATION-UNAVAILABLE '):].partition(' ')
            unavailable[nm] = why
    broken = []
    ok = True
    for mod in TIES:
        rc, out = run(['lake', 'build', 'PelProps.' + mod], LEAN)
        if rc != 0:
            ok = False
            ths = tie_theorems(mod)
            found = False
            for m in re.finditer(r'%s\.lean:(\d+):\d+' % mod, out):
                ln = int(m.group(1))
                owner = None
                for st, nm in ths:
                    if st <= ln:
                        owner = nm
                if owner:
                    found = True
                    if owner not in broken:
                        broken.append(owner)
            if not found:
                broken.append(mod + ':?')
    mine = [u for u in unavailable if u in targets]
    others = [u for u in unavailable if u not in targets]
    detail = ''
    for tg in mine:
        detail += '%s: %s ' % (tg, unavailable[tg])
    if others:
        detail += ' [also unavailable: %s]' % ', '.join(others)
    if broken:
        detail += ' broken: ' + ', '.join(broken)
    # the tie of the targets is proved iff no theorem that depends on a target is broken (a theorem about an UNAVAILABLE definition
    # is vacuous: its hypothesis `none = some g` is absurd)
    broken_targets = [b for b in broken if any(t in OWN.get(b, targets) for t in targets)]
    return not mine, not broken_targets, detail.strip()


def main():
    args = sys.argv[1:]
    sel = None
    if '-k' in args:
        sel = args[args.index('-k') + 1]
    rc, out = run(['git', 'status', '--porcelain'], REPO)
    if out.strip():
        sys.exit('the worktree %s is not clean:\n%s' % (REPO, out))
    bad = 0
    fmt = '%-4s %-1s %-28s %-11s %-7s %s'
    try:
        t, p, d = evaluate([K, PP, BO, DS])
        print(fmt % ('id', 'k', 'function', 'translated', 'tie', 'verdict / description'))
        print(fmt % ('base', '-', '(all)', 'yes' if t else 'NO', 'proved' if p else 'BROKEN', ('unexpected: ' + d) if d or not p else 'clean tree'))
        sys.stdout.flush()
        if d or not p:
            bad += 1
        for mid, kind, target, edit, desc in MUTANTS:
            if sel and not any(x in mid or x in target for x in sel.split(',')):
                continue
            path = os.path.join(REPO, SRC)
            text = open(path, encoding='utf-8').read()
            try:
                new = edit(text)
            except RuntimeError as e:
                print(fmt % (mid, kind, target, '-', '-', 'MUTANT DOES NOT APPLY: %s' % e))
                bad += 1
                continue
            if new == text:
                print(fmt % (mid, kind, target, '-', '-', 'MUTANT CHANGES NOTHING'))
                bad += 1
                continue
            try:
                compile(new, path, 'exec')
            except SyntaxError as e:
                print(fmt % (mid, kind, target, '-', '-', 'MUTANT IS NOT PYTHON: %s' % e))
                bad += 1
                continue
            with open(path, 'w', encoding='utf-8') as f:
                f.write(new)
            try:
                t, p, d = evaluate(target.split(','))
            finally:
                restore()
            if t is None:
                verdict = 'ERROR ' + d
                bad += 1
            elif kind == 'B':
                if not t:
                    verdict = 'ok (UNAVAILABLE)'
                elif not p:
                    verdict = 'ok (tie broken)'
                else:
                    verdict = 'MISSED: behaviour-changing mutant still proved'
                    bad += 1
            else:
                if not t:
                    verdict = 'acceptable (UNAVAILABLE)'
                elif p:
                    verdict = 'ok (still proved)'
                else:
                    verdict = 'TIE BROKEN by a behaviour-preserving rewrite'
            print(fmt % (mid, kind, target, 'yes' if t else 'no', '-' if not t else ('proved' if p else 'BROKEN'), verdict + ' | ' + desc + (' | ' + d if d else '')))
            sys.stdout.flush()
    finally:
        restore()
        run([PY, os.path.join(VERIF, 'harness', 'extract.py')], VERIF)
        for mod in TIES:
            run(['lake', 'build', 'PelProps.' + mod], LEAN)
    print('%d unexpected result(s)' % bad)
    return 1 if bad else 0


if __name__ == '__main__':
    sys.exit(main())
