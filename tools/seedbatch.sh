#!/bin/bash
# tools/seedbatch.sh <root> : for every <root>/Cxx/out/{A,B}: confirm, then run all quick checks against it
root=${1:-/tmp/seed}
tools=$(cd "$(dirname "$0")" && pwd)
mkdir -p ${SEEDOUT:-/tmp/seedout}
for d in $root/C*/out/*/; do
  d=${d%/}
  [ -f $d/patch.diff ] || continue
  id=$(echo ${d#$root/} | sed 's#/out/#-#')
  [ -f ${SEEDOUT:-/tmp/seedout}/$id.done ] && continue
  $tools/seedverify.py $d > ${SEEDOUT:-/tmp/seedout}/$id.verify.json 2>&1
  if grep -q '"confirmed": true' ${SEEDOUT:-/tmp/seedout}/$id.verify.json; then
    $tools/seedrun.py $d/patch.diff --out ${SEEDOUT:-/tmp/seedout}/$id > ${SEEDOUT:-/tmp/seedout}/$id.run.txt 2>&1
    echo "$id confirmed $(grep CAUGHT-BY ${SEEDOUT:-/tmp/seedout}/$id.run.txt)"
  else
    echo "$id NOT-CONFIRMED"
  fi
  touch ${SEEDOUT:-/tmp/seedout}/$id.done
done
