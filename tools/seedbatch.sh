#!/bin/bash
# tools/seedbatch.sh <root> : for every <root>/Cxx/out/{A,B}: confirm, then run all quick checks against it
root=${1:-/tmp/seed}
mkdir -p /tmp/seedout
for d in $root/C*/out/*/; do
  d=${d%/}
  [ -f $d/patch.diff ] || continue
  id=$(echo ${d#$root/} | sed 's#/out/#-#')
  [ -f /tmp/seedout/$id.done ] && continue
  /verif/tools/seedverify.py $d > /tmp/seedout/$id.verify.json 2>&1
  if grep -q '"confirmed": true' /tmp/seedout/$id.verify.json; then
    /verif/tools/seedrun.py $d/patch.diff --out /tmp/seedout/$id > /tmp/seedout/$id.run.txt 2>&1
    echo "$id confirmed $(grep CAUGHT-BY /tmp/seedout/$id.run.txt)"
  else
    echo "$id NOT-CONFIRMED"
  fi
  touch /tmp/seedout/$id.done
done
