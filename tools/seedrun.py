#!/usr/bin/env python3
"""
Mutation self-test driver: apply one seeded change to /repo, run the registered checks, undo the change.

    tools/seedrun.py <patch.diff> [--tier quick|thorough] [--props C01,C05|all] [--seed N] [--out DIR]

Never leaves /repo modified: the patch is reverted (and the tree verified clean) even when a check crashes.
Prints one line per property: exit status, VIOLATION lines, time.
"""
import argparse, json, os, subprocess, sys, time, shutil
from concurrent.futures import ThreadPoolExecutor

VERIF = os.path.dirname(os.path.dirname(os.path.abspath(__file__)))
REPO = os.environ.get('VERIF_REPO', '/repo')   # the checks honour the same variable (a scratch worktree for isolated runs)


def git(*a, check=True):
    return subprocess.run(['git', '-C', REPO] + list(a), check=check, capture_output=True, text=True)


def clean():
    return git('status', '--porcelain').stdout.strip() == ''


def run_check(prop, tier, seed, outdir):
    env = dict(os.environ, VERIF_SEED=str(seed))
    t0 = time.time()
    p = subprocess.run([os.path.join(VERIF, 'check'), prop, '--tier', tier], cwd=VERIF, env=env,
                       capture_output=True, text=True)
    log = p.stdout + p.stderr
    open(os.path.join(outdir, prop + '.log'), 'w').write(log)
    viol = [l for l in p.stdout.split('\n') if l.startswith('VIOLATION')]
    return prop, p.returncode, viol, time.time() - t0


def main():
    ap = argparse.ArgumentParser()
    ap.add_argument('patch')
    ap.add_argument('--tier', default='quick')
    ap.add_argument('--props', default='all')
    ap.add_argument('--seed', type=int, default=1)
    ap.add_argument('--out', default=None)
    ap.add_argument('--jobs', type=int, default=10)
    a = ap.parse_args()
    props = ['C%02d' % i for i in range(1, 21)] if a.props == 'all' else a.props.split(',')
    out = a.out or os.path.join('/tmp/seedout', os.path.basename(os.path.dirname(os.path.abspath(a.patch))) + '_' + str(int(time.time())))
    os.makedirs(out, exist_ok=True)
    if not clean():
        print('refusing: /repo is not clean'); return 2
    patch = os.path.abspath(a.patch)
    r = git('apply', patch, check=False)
    if r.returncode != 0:
        print('patch does not apply:', r.stderr); return 2
    results = []
    try:
        with ThreadPoolExecutor(a.jobs) as ex:
            for res in ex.map(lambda p: run_check(p, a.tier, a.seed, out), props):
                results.append(res)
    finally:
        git('apply', '-R', patch, check=False)
        if not clean():
            git('checkout', '--', '.', check=False)
            git('clean', '-fdq', 'modules', check=False)
        assert clean(), '/repo not clean after revert!'
    caught = []
    for prop, rc, viol, dt in results:
        print('%s rc=%d %5.1fs %s' % (prop, rc, dt, ' | '.join(viol)))
        if rc == 1:
            caught.append(prop)
    # keep the replay files of this run next to the logs
    rp = os.path.join(VERIF, 'replays')
    if os.path.isdir(rp):
        for f in os.listdir(rp):
            shutil.move(os.path.join(rp, f), os.path.join(out, f))
    print('CAUGHT-BY', ','.join(caught) if caught else '-', 'logs', out)
    # restore evidence to the committed state (evidence must describe runs on the unchanged tree)
    subprocess.run(['git', '-C', VERIF, 'checkout', '--', 'evidence'], check=False)
    return 0


if __name__ == '__main__':
    sys.exit(main())
