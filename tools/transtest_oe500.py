#!/venv/bin/python
"""
Self-test of the source tie of stream `oe500` (harness/trans_oe500.py, second half of PelProps/TieC20.lean).

Applies source MUTANTS to the repository worktree one at a time (string replacements, each pattern must occur exactly once unless
the replacement is written ('*', old, new)), runs harness/extract.py (regenerates lean/PelGen/GenOe500.lean) and
`lake build PelProps.TieC20`, and prints a table

    mutant -> which definitions became UNAVAILABLE, which tie theorems no longer build

Expected: a behaviour-CHANGING mutant (B) is never "all translated and all ties proved"; a behaviour-PRESERVING rewrite (P) is
ideally still proved, acceptably UNAVAILABLE, rarely "tie broken".  The worktree is always restored (`git checkout -- .`).

usage: VERIF_REPO=/path/to/worktree tools/transtest_oe500.py [name-substring ...]
"""
import ast
import os
import re
import subprocess
import sys

VERIF = os.path.dirname(os.path.dirname(os.path.abspath(__file__)))
REPO = os.environ.get('VERIF_REPO', '/repo')
LEAN = os.path.join(VERIF, 'lean')
PY = '/venv/bin/python'
TIES = ['TieC20']

UD, SRC = 'udparsers/oe500/oe500.py', 'srcparsers/oe500/oe500.py'

# (name, kind, file, [(old, new), ...])
M = []


def B(name, f, *reps):
    M.append((name, 'B', f, list(reps)))


def P(name, f, *reps):
    M.append((name, 'P', f, list(reps)))


SIG_BODY = ('        a = stream.get_mem(4).hex()\n        b = stream.get_mem(4).hex()\n        c = stream.get_mem(4).hex()\n')

# ------------------------------------------------------------------------------------------------ behaviour-changing
B('sig: count read as 2 bytes', UD, ('sig_count = stream.get_int(4)', 'sig_count = stream.get_int(2)'))
B('sig: first word read as 2 bytes', UD, ('        a = stream.get_mem(4).hex()\n', '        a = stream.get_mem(2).hex()\n'))
B('sig: words a and b swapped in the call', UD, ('parser.get_signature(a, b, c)', 'parser.get_signature(b, a, c)'))
B('sig: words a and b read in the other order', UD, (SIG_BODY, '        b = stream.get_mem(4).hex()\n        a = stream.get_mem(4).hex()\n        c = stream.get_mem(4).hex()\n'))
B('sig: third word not read (c = b)', UD, ('        c = stream.get_mem(4).hex()\n', '        c = b\n'))
B('sig: key text changed', UD, ('*', '"Signature List"', '"Signature list"'))
B('sig: loop starts at 1', UD, ('range(0, sig_count)', 'range(1, sig_count)'))
B('sig: loop runs once more', UD, ('range(0, sig_count)', 'range(0, sig_count + 1)'))
B('sig: upper-case hex words', UD, ('        a = stream.get_mem(4).hex()\n', '        a = stream.get_mem(4).hex().upper()\n'))
B('sig: a second key in the result', UD, ('    out["Signature List"] = []\n', '    out["Signature List"] = []\n    out["Count"] = str(sig_count)\n'))
B('sig: little-endian stream', UD, ("def _parse_signature_list(version: int, data: memoryview) -> str:\n    \"\"\"\n    Parser for the signature list.\n    \"\"\"\n\n    stream = DataStream(data, byte_order='big', is_signed=False)",
                                    "def _parse_signature_list(version: int, data: memoryview) -> str:\n    \"\"\"\n    Parser for the signature list.\n    \"\"\"\n\n    stream = DataStream(data, byte_order='little', is_signed=False)"))
B('reg: chip count read as 2 bytes', UD, ('chip_count = stream.get_int(4)', 'chip_count = stream.get_int(2)'))
B('reg: chip position read as 1 byte', UD, ('chip_pos = stream.get_int(2)', 'chip_pos = stream.get_int(1)'))
B('reg: node and chip position read in the other order', UD,
  ('        chip_pos = stream.get_int(2)\n        node_pos = stream.get_int(1)\n', '        node_pos = stream.get_int(1)\n        chip_pos = stream.get_int(2)\n'))
B('reg: node and chip swapped in get_chip_desc', UD, ('parser.get_chip_desc(model_ec, node_pos, chip_pos)', 'parser.get_chip_desc(model_ec, chip_pos, node_pos)'))
B('reg: fill character', UD, ("chip_desc.ljust(chip_desc_len, '*')", "chip_desc.ljust(chip_desc_len, '-')"))
B('reg: no blank after the chip description', UD, ("parser.get_chip_desc(model_ec, node_pos, chip_pos) + ' '", "parser.get_chip_desc(model_ec, node_pos, chip_pos) + ''"))
B('reg: reg_name_len 25 -> 24', UD, ('reg_name_len   = 25', 'reg_name_len   = 24'))
B('reg: chip_desc_len 31 -> 30', UD, ('chip_desc_len  = 31 +', 'chip_desc_len  = 30 +'))
B('reg: data_chunk_len 4 -> 2', UD, ('data_chunk_len = 4', 'data_chunk_len = 2'))
B('reg: register id read as 2 bytes', UD, ('reg_id    = stream.get_mem(3).hex()', 'reg_id    = stream.get_mem(2).hex()'))
B('reg: instance and size read in the other order', UD,
  ('            reg_inst  = stream.get_int(1)\n            data_size = stream.get_int(1)\n', '            data_size = stream.get_int(1)\n            reg_inst  = stream.get_int(1)\n'))
B('reg: one byte more of data', UD, ('stream.get_mem(data_size).hex()', 'stream.get_mem(data_size + 1).hex()'))
B('reg: instance used as the data length', UD, ('stream.get_mem(data_size).hex()', 'stream.get_mem(reg_inst).hex()'))
B('reg: register looked up under the data size', UD, ('parser.get_reg_data(model_ec, reg_id, reg_inst)', 'parser.get_reg_data(model_ec, reg_id, data_size)'))
B('reg: name not cropped', UD, ('            reg_name = reg_name[0 : reg_name_len]\n', ''))
B('reg: name cropped from character 1', UD, ('reg_name[0 : reg_name_len]', 'reg_name[1 : reg_name_len]'))
B('reg: name not padded', UD, ('            reg_name = reg_name.ljust(reg_name_len)\n', ''))
B('reg: data not upper-cased', UD, ('data_buf.upper()))', 'data_buf))'))
B('reg: line format text', UD, ('"  %s (%s) %s"', '" %s (%s) %s"'))
B('reg: name and address swapped in the line', UD, ('(reg_name, reg_addr, data_buf.upper())', '(reg_addr, reg_name, data_buf.upper())'))
B('reg: chunks joined without blanks', UD, ("data_buf = ' '.join(chunks)", "data_buf = ''.join(chunks)"))
B('reg: chunks overlap (end = i + 5)', UD, ('data_buf[i : i + data_chunk_len]', 'data_buf[i : i + data_chunk_len + 1]'))
B('reg: chunk loop starts at 4', UD, ('range(0, len(data_buf), data_chunk_len)', 'range(4, len(data_buf), data_chunk_len)'))
B('reg: key text changed', UD, ('out["Register Dump"] = dump', 'out["Register dump"] = dump'))
B('reg: register loop runs once more', UD, ('range(0, num_regs)', 'range(0, num_regs + 1)'))
B('reg: chip heading after its registers', UD,
  ("        dump.append(chip_desc.ljust(chip_desc_len, '*'))\n", ''),
  ('            dump.append("  %s (%s) %s" % (reg_name, reg_addr, data_buf.upper()))\n', '            dump.append("  %s (%s) %s" % (reg_name, reg_addr, data_buf.upper()))\n        dump.append(chip_desc.ljust(chip_desc_len, \'*\'))\n'))
B('reg: heading dropped', UD, ("        dump.append(chip_desc.ljust(chip_desc_len, '*'))\n", ''))
B('ffdc: strips blanks instead of NULs', UD, ("rstrip(b'\\0')", "rstrip(b' ')"))
B('ffdc: strips leading NULs', UD, ("rstrip(b'\\0')", "lstrip(b'\\0')"))
B('ffdc: NULs not stripped', UD, ("data.tobytes().rstrip(b'\\0').decode('utf8')", "data.tobytes().decode('utf8')"))
B('ffdc: key text changed', UD, ('"Callout List FFDC"', '"Callout list FFDC"'))
B('ffdc: latin-1', UD, (".decode('utf8')", ".decode('latin-1')"))
B('hb: cfam value read as 8 bytes', UD, ("cfamValue = '0x' + stream.get_mem(4).hex()", "cfamValue = '0x' + stream.get_mem(8).hex()"))
B('hb: prefix 0X', UD, ("cfamAddr  = '0x' + stream.get_mem(4).hex()", "cfamAddr  = '0X' + stream.get_mem(4).hex()"))
B('hb: pairs in the other order', UD, ('        cfamAddr: cfamValue,\n        scomAddr: scomValue\n', '        scomAddr: scomValue,\n        cfamAddr: cfamValue\n'))
B('hb: values swapped', UD, ('        cfamAddr: cfamValue,\n        scomAddr: scomValue\n', '        cfamAddr: scomValue,\n        scomAddr: cfamValue\n'))
B('hb: key text changed', UD, ('"Hostboot Scratch Registers"', '"Hostboot Scratch Regs"'))
B('hb: scom address read before the cfam value', UD,
  ("    cfamValue = '0x' + stream.get_mem(4).hex()\n    scomAddr  = '0x' + stream.get_mem(8).hex()\n", "    scomAddr  = '0x' + stream.get_mem(8).hex()\n    cfamValue = '0x' + stream.get_mem(4).hex()\n"))
B('ssig: values swapped', UD, ("        'Chip ID': chipId,\n        'Signature ID': sigId\n", "        'Chip ID': sigId,\n        'Signature ID': chipId\n"))
B('ssig: key text changed', UD, ("'Signature ID': sigId", "'Signature Id': sigId"))
B('ssig: members in the other order', UD, ("        'Chip ID': chipId,\n        'Signature ID': sigId\n", "        'Signature ID': sigId,\n        'Chip ID': chipId\n"))
B('ssig: signature id read as 2 bytes', UD, ("sigId = '0x' + stream.get_mem(4).hex()", "sigId = '0x' + stream.get_mem(2).hex()"))
B('default: empty object instead of null', UD, ('return json.dumps(None)', 'return json.dumps({})'))
B('route: sub-types 1 and 2 swapped', UD, ('        1: _parse_signature_list,\n        2: _parse_register_dump,\n', '        1: _parse_register_dump,\n        2: _parse_signature_list,\n'))
B('route: sub-type 5 -> 6', UD, ('        5: _parse_scratch_reg_sig,\n', '        6: _parse_scratch_reg_sig,\n'))
B('route: sub-type 3 dropped', UD, ('        3: _parse_callout_ffdc,\n', ''))
B('route: default is the callout parser', UD, ('parsers.get(subtype, _parse_default)', 'parsers.get(subtype, _parse_callout_ffdc)'))
B('route: looked up under the version', UD, ('parsers.get(subtype, _parse_default)', 'parsers.get(version, _parse_default)'))
B('route: sub-type 0 added', UD, ('        1: _parse_signature_list,\n', '        0: _parse_signature_list,\n        1: _parse_signature_list,\n'))
B('src: literal 10 -> 01', SRC, ("if '10' == refcode[6:8]:", "if '01' == refcode[6:8]:"))
B('src: characters 4..5', SRC, ('refcode[6:8]', 'refcode[4:6]'))
B('src: characters 6..8', SRC, ('refcode[6:8]', 'refcode[6:9]'))
B('src: == -> !=', SRC, ("if '10' == refcode[6:8]:", "if '10' != refcode[6:8]:"))
B('src: texts swapped', SRC, ('out["Primary Attention"] = "system checkstop"\n    else:\n        out["Primary Attention"] = "secondary analysis"',
                              'out["Primary Attention"] = "secondary analysis"\n    else:\n        out["Primary Attention"] = "system checkstop"'))
B('src: text changed', SRC, ('"secondary analysis"', '"secondary"'))
B('src: words 5, 6, 7', SRC, ('parser.get_signature(word6, word7, word8)', 'parser.get_signature(word5, word6, word7)'))
B('src: words 6, 8, 7', SRC, ('parser.get_signature(word6, word7, word8)', 'parser.get_signature(word6, word8, word7)'))
B('src: key text changed', SRC, ('out["Signature Description"]', 'out["Signature"]'))
B('src: signature first', SRC,
  ('    out["Signature Description"] = parser.get_signature(word6, word7, word8)\n', ''),
  ('    parser = ParserData()\n', '    parser = ParserData()\n    out["Signature Description"] = parser.get_signature(word6, word7, word8)\n'))
B('src: attention member dropped in the else branch', SRC, ('    else:\n        out["Primary Attention"] = "secondary analysis"\n', ''))
B('src: parameters word6 and word7 swapped in the signature', SRC, ('word6: str, word7: str, word8: str, word9: str', 'word7: str, word6: str, word8: str, word9: str'))

B('sig: result list created anew in every round', UD, ('        out["Signature List"].append(parser.get_signature(a, b, c))\n', '        out["Signature List"] = []\n        out["Signature List"].append(parser.get_signature(a, b, c))\n'))
B('sig: returns after the first signature', UD, ('        out["Signature List"].append(parser.get_signature(a, b, c))\n', '        out["Signature List"].append(parser.get_signature(a, b, c))\n        return json.dumps(out)\n'))
B('sig: the last word is shown as well (loop-local name after the loop)', UD, ('        out["Signature List"].append(parser.get_signature(a, b, c))\n\n', '        out["Signature List"].append(parser.get_signature(a, b, c))\n\n    out["Last"] = c\n'))
B('sig: AssertionError swallowed', UD, ('        out["Signature List"].append(parser.get_signature(a, b, c))\n',
                                       '        try:\n            out["Signature List"].append(parser.get_signature(a, b, c))\n        except AssertionError:\n            pass\n'))
B('reg: chunk list not reset per register', UD, ('            chunks = []\n', ''), ('        for r in range(0, num_regs):\n', '        chunks = []\n        for r in range(0, num_regs):\n'))
B('reg: stops after the first register of a chip', UD, ('            dump.append("  %s (%s) %s" % (reg_name, reg_addr, data_buf.upper()))\n', '            dump.append("  %s (%s) %s" % (reg_name, reg_addr, data_buf.upper()))\n            break\n'))
B('hb: scom words read from a second stream over the same data', UD,
  ("    scomAddr  = '0x' + stream.get_mem(8).hex()\n", "    stream = DataStream(data, byte_order='big', is_signed=False)\n    scomAddr  = '0x' + stream.get_mem(8).hex()\n"))
B('module: ParserData rebound at module level', UD, ('\ndef _parse_signature_list', '\nParserData = dict\n\ndef _parse_signature_list'))
B('module: json.dumps shadowed by a local', UD, ('    sig_count = stream.get_int(4)\n', '    sig_count = stream.get_int(4)\n    json = parser\n'))

# ------------------------------------------------------------------------------------------------ behaviour-preserving
P('sig: locals renamed', UD,
  ("    stream = DataStream(data, byte_order='big', is_signed=False)\n    parser = ParserData()\n    out    = OrderedDict()\n\n    # The first 4 bytes contains the number of signatures in this data.\n    sig_count = stream.get_int(4)",
   "    ds = DataStream(data, byte_order='big', is_signed=False)\n    pd = ParserData()\n    result = OrderedDict()\n\n    n = ds.get_int(4)"),
  ('    out["Signature List"] = []\n    for i in range(0, sig_count):', '    result["Signature List"] = []\n    for k in range(0, n):'),
  (SIG_BODY, '        w0 = ds.get_mem(4).hex()\n        w1 = ds.get_mem(4).hex()\n        w2 = ds.get_mem(4).hex()\n'),
  ('        out["Signature List"].append(parser.get_signature(a, b, c))\n\n    # Convert to JSON format and dump to a string.\n    return json.dumps(out)\n\n\ndef _parse_register_dump',
   '        result["Signature List"].append(pd.get_signature(w0, w1, w2))\n\n    return json.dumps(result)\n\n\ndef _parse_register_dump'))
P('sig: range(n), annotation, comment', UD, ('for i in range(0, sig_count):', 'for i in range(sig_count):  # one signature per round'),
  ('sig_count = stream.get_int(4)', 'sig_count: int = stream.get_int(4)'))
P('sig: signature in a temporary', UD, ('        out["Signature List"].append(parser.get_signature(a, b, c))\n', '        sig = parser.get_signature(a, b, c)\n        out["Signature List"].append(sig)\n'))
P('sig: list filled first, stored afterwards', UD,
  ('    out["Signature List"] = []\n', '    sigs = []\n'),
  ('        out["Signature List"].append(parser.get_signature(a, b, c))\n\n', '        sigs.append(parser.get_signature(a, b, c))\n\n    out["Signature List"] = sigs\n'))
P('sig: plain dict, parser created last', UD,
  ("    stream = DataStream(data, byte_order='big', is_signed=False)\n    parser = ParserData()\n    out    = OrderedDict()\n\n    # The first 4 bytes contains the number of signatures",
   "    out    = dict()\n    parser = ParserData()\n    stream = DataStream(data, byte_order='big', is_signed=False)\n\n    # The first 4 bytes contains the number of signatures"))
P('sig: hex() at the call', UD,
  (SIG_BODY, '        a = stream.get_mem(4)\n        b = stream.get_mem(4)\n        c = stream.get_mem(4)\n'),
  ('parser.get_signature(a, b, c)', 'parser.get_signature(a.hex(), b.hex(), c.hex())'))
P('reg: line as an f-string', UD, ('"  %s (%s) %s" % (reg_name, reg_addr, data_buf.upper())', 'f"  {reg_name} ({reg_addr}) {data_buf.upper()}"'))
P('reg: line with .format', UD, ('"  %s (%s) %s" % (reg_name, reg_addr, data_buf.upper())', '"  {} ({}) {}".format(reg_name, reg_addr, data_buf.upper())'))
P('reg: line with +', UD, ('"  %s (%s) %s" % (reg_name, reg_addr, data_buf.upper())', '"  " + reg_name + " (" + reg_addr + ") " + data_buf.upper()'))
P('reg: constants written out', UD, ('chip_desc_len  = 31 + reg_name_len + data_chunk_len', 'chip_desc_len  = 60'))
P('reg: crop and pad in one expression', UD,
  ('            reg_name = reg_name[0 : reg_name_len]\n            reg_name = reg_name.ljust(reg_name_len)\n', "            reg_name = reg_name[:reg_name_len].ljust(reg_name_len, ' ')\n"))
P('reg: loop variables and locals renamed', UD,
  ('for c in range(0, chip_count):', 'for chip in range(0, chip_count):'), ('for r in range(0, num_regs):', 'for reg in range(0, num_regs):'),
  ('for i in range(0, len(data_buf), data_chunk_len):\n                chunks.append(data_buf[i : i + data_chunk_len])',
   'for pos in range(0, len(data_buf), data_chunk_len):\n                chunks.append(data_buf[pos : pos + data_chunk_len])'))
P('reg: heading built in one expression', UD,
  ("        chip_desc = parser.get_chip_desc(model_ec, node_pos, chip_pos) + ' '\n        dump.append(chip_desc.ljust(chip_desc_len, '*'))\n",
   "        dump.append((parser.get_chip_desc(model_ec, node_pos, chip_pos) + ' ').ljust(chip_desc_len, '*'))\n"))
P('reg: independent statements reordered', UD,
  ('    reg_name_len   = 25\n    data_chunk_len = 4\n', '    data_chunk_len = 4\n    reg_name_len   = 25\n'),
  ("    parser = ParserData()\n    out    = OrderedDict()\n\n    # The register dump", "    out    = OrderedDict()\n    parser = ParserData()\n\n    # The register dump"))
P('reg: joined text in its own variable, chunk end in a temporary', UD,
  ('                chunks.append(data_buf[i : i + data_chunk_len])\n\n            data_buf = \' \'.join(chunks)\n', '                end = i + data_chunk_len\n                chunks.append(data_buf[i : end])\n\n            shown = \' \'.join(chunks)\n'),
  ('(reg_name, reg_addr, data_buf.upper())', '(reg_name, reg_addr, shown.upper())'))
P('reg: upper() before the join result is stored', UD,
  ("            data_buf = ' '.join(chunks)\n", "            data_buf = ' '.join(chunks).upper()\n"), ('(reg_name, reg_addr, data_buf.upper())', '(reg_name, reg_addr, data_buf)'))
P('reg: pair kept, fields taken by index', UD,
  ('            reg_name, reg_addr = parser.get_reg_data(model_ec, reg_id, reg_inst)\n', '            reg = parser.get_reg_data(model_ec, reg_id, reg_inst)\n            reg_name = reg[0]\n            reg_addr = reg[1]\n'))
P('ffdc: step by step', UD, ("    s = data.tobytes().rstrip(b'\\0').decode('utf8')\n", "    raw = data.tobytes()\n    raw = raw.rstrip(b'\\0')\n    s = raw.decode('utf-8')\n"),
  ('return json.dumps( { "Callout List FFDC": json.loads(s) } )', 'doc = json.loads(s)\n    return json.dumps({"Callout List FFDC": doc})'))
P('hb: dictionary filled by assignments', UD,
  ('    out = {\n        cfamAddr: cfamValue,\n        scomAddr: scomValue\n    }\n', '    out = {}\n    out[cfamAddr] = cfamValue\n    out[scomAddr] = scomValue\n'))
P('hb: prefix with % and f-string', UD, ("cfamAddr  = '0x' + stream.get_mem(4).hex()", "cfamAddr  = '0x%s' % stream.get_mem(4).hex()"),
  ("scomValue = '0x' + stream.get_mem(8).hex()", "scomValue = f'0x{stream.get_mem(8).hex()}'"))
P('ssig: result dictionary in one display', UD,
  ("    out = {\n        'Chip ID': chipId,\n        'Signature ID': sigId\n    }\n\n    # Convert to JSON format and dump to a string.\n    return json.dumps({\"Scratch Register Error Signature\": out})",
   "    return json.dumps({\"Scratch Register Error Signature\": {'Chip ID': chipId, 'Signature ID': sigId}})"))
P('route: if / elif chain instead of the dictionary', UD,
  ('    parsers = {\n        1: _parse_signature_list,\n        2: _parse_register_dump,\n        3: _parse_callout_ffdc,\n        4: _parse_hb_scratch_regs,\n        5: _parse_scratch_reg_sig,\n    }\n    subtype_func = parsers.get(subtype, _parse_default)\n\n    # Return the parsed output of this data.\n    return subtype_func(version, data)',
   '    if subtype == 1:\n        return _parse_signature_list(version, data)\n    elif subtype == 2:\n        return _parse_register_dump(version, data)\n    elif subtype == 3:\n        return _parse_callout_ffdc(version, data)\n    elif subtype == 4:\n        return _parse_hb_scratch_regs(version, data)\n    elif subtype == 5:\n        return _parse_scratch_reg_sig(version, data)\n    return _parse_default(version, data)'))
P('route: entries listed in another order', UD,
  ('        1: _parse_signature_list,\n        2: _parse_register_dump,\n        3: _parse_callout_ffdc,\n', '        3: _parse_callout_ffdc,\n        2: _parse_register_dump,\n        1: _parse_signature_list,\n'))
P('route: a callee renamed everywhere', UD, ('*', '_parse_signature_list', '_parse_sig_list'))
P('route: the (unused) version argument replaced', UD, ('return subtype_func(version, data)', 'return subtype_func(subtype, data)'))
P('route: get() inline, parameters renamed', UD,
  ('def parseUDToJson(subtype: int, version: int, data: memoryview) -> str:', 'def parseUDToJson(st: int, ver: int, buf: memoryview) -> str:'),
  ('    subtype_func = parsers.get(subtype, _parse_default)\n\n    # Return the parsed output of this data.\n    return subtype_func(version, data)', '    return parsers.get(st, _parse_default)(ver, buf)'))
P('src: comparison the other way round', SRC, ("if '10' == refcode[6:8]:", "if refcode[6:8] == '10':"))
P('src: != with the branches exchanged', SRC,
  ('    if \'10\' == refcode[6:8]:\n        out["Primary Attention"] = "system checkstop"\n    else:\n        out["Primary Attention"] = "secondary analysis"',
   '    if \'10\' != refcode[6:8]:\n        out["Primary Attention"] = "secondary analysis"\n    else:\n        out["Primary Attention"] = "system checkstop"'))
P('src: conditional expression', SRC,
  ('    if \'10\' == refcode[6:8]:\n        out["Primary Attention"] = "system checkstop"\n    else:\n        out["Primary Attention"] = "secondary analysis"',
   '    out["Primary Attention"] = "system checkstop" if \'10\' == refcode[6:8] else "secondary analysis"'))
P('src: text chosen first, stored once', SRC,
  ('    if \'10\' == refcode[6:8]:\n        out["Primary Attention"] = "system checkstop"\n    else:\n        out["Primary Attention"] = "secondary analysis"',
   '    attn = "secondary analysis"\n    if \'10\' == refcode[6:8]:\n        attn = "system checkstop"\n    out["Primary Attention"] = attn'))
P('src: parameters and locals renamed', SRC,
  ('*', 'refcode', 'rc'), ('*', 'word6', 'w6'), ('*', 'word7', 'w7'), ('*', 'word8', 'w8'), ('    parser = ParserData()', '    pd = ParserData()'), ('parser.get_signature', 'pd.get_signature'))
P('src: result as one dictionary display', SRC,
  ('    if \'10\' == refcode[6:8]:\n        out["Primary Attention"] = "system checkstop"\n    else:\n        out["Primary Attention"] = "secondary analysis"\n',
   '    attn = "system checkstop" if \'10\' == refcode[6:8] else "secondary analysis"\n'),
  ('    out["Signature Description"] = parser.get_signature(word6, word7, word8)\n\n    return json.dumps(out)',
   '    return json.dumps({"Primary Attention": attn, "Signature Description": parser.get_signature(word6, word7, word8)})'))
P('src: signature in a temporary, docstring and comments changed', SRC,
  ('    out["Signature Description"] = parser.get_signature(word6, word7, word8)\n', '    # words 6..8 hold the signature\n    sig = parser.get_signature(word6, word7, word8)\n    out["Signature Description"] = sig\n'),
  ('    SRC Parser for openpower-hw-diags analyzer component.', '    SRC parser of the hardware diagnostics component.'))

P('sig: list stored first, filled through the other name (aliasing)', UD,
  ('    out["Signature List"] = []\n', '    sigs = []\n    out["Signature List"] = sigs\n'),
  ('        out["Signature List"].append(parser.get_signature(a, b, c))\n', '        sigs.append(parser.get_signature(a, b, c))\n'))


def sh(cmd, cwd=None, env=None):
    r = subprocess.run(cmd, cwd=cwd, env=env, stdout=subprocess.PIPE, stderr=subprocess.STDOUT, text=True)
    return r.returncode, r.stdout


def restore():
    sh(['git', 'checkout', '--', '.'], cwd=REPO)


def theorem_at(tie, line, sub='PelProps'):
    """name of the theorem whose text contains the given line of PelProps/<tie>.lean"""
    name = '?'
    for i, l in enumerate(open(os.path.join(LEAN, sub, tie + '.lean')).read().split('\n'), 1):
        m = re.match(r'\s*theorem\s+(\S+)', l)
        if m and i <= line:
            name = m.group(1)
    return name


def evaluate():
    env = dict(os.environ, VERIF_REPO=REPO)
    rc, out = sh([PY, os.path.join(VERIF, 'harness', 'extract.py')], cwd=VERIF, env=env)
    if rc != 0:
        return None, ['extract.py failed: ' + out[-300:]]
    unav = [l.split(' ', 1)[1].split(' (')[0] + ' (' + l.split(' (', 1)[1][:70] for l in out.split('\n')
            if l.startswith('TRANSLATION-UNAVAILABLE ') and l.split(' ')[1].startswith('oe500_')]
    broken = []
    for tie in TIES:
        rc, out = sh(['lake', 'build', 'PelProps.' + tie], cwd=LEAN)
        if rc != 0:
            names = []
            for m in re.finditer(r'error: (\w+)/(\w+)\.lean:(\d+):\d+', out):
                nm = theorem_at(m.group(2), int(m.group(3)), m.group(1))
                if m.group(2) != tie:
                    nm = '%s.%s (imported)' % (m.group(2), nm)
                if nm not in names:
                    names.append(nm)
            broken.append('%s: %s' % (tie, ', '.join(names) or 'does not build'))
    return unav, broken


def main():
    only = sys.argv[1:]
    restore()
    rows = []
    try:
        for name, kind, f, reps in M:
            if only and not any(o in name for o in only):
                continue
            path = os.path.join(REPO, 'modules', f)
            src = open(path, encoding='utf-8').read()
            new = src
            bad = None
            for r in reps:
                if len(r) == 3:                      # ('*', old, new): every occurrence
                    if r[1] not in new:
                        bad = 'pattern does not occur: %r' % r[1][:50]
                        break
                    new = new.replace(r[1], r[2])
                    continue
                old, rep = r
                if new.count(old) != 1:
                    bad = 'pattern occurs %d times: %r' % (new.count(old), old[:50])
                    break
                new = new.replace(old, rep)
            if bad is None:
                try:
                    ast.parse(new)
                except SyntaxError as e:
                    bad = 'mutant is not valid Python: %s' % e
            if bad:
                rows.append((kind, name, 'MUTANT NOT APPLIED', bad))
                print('%s | %-62s | %-11s | %s' % (kind, name, 'NOT APPLIED', bad), flush=True)
                continue
            with open(path, 'w', encoding='utf-8') as fh:
                fh.write(new)
            try:
                unav, broken = evaluate()
            finally:
                restore()
            if unav is None:
                verdict = 'ERROR'
            elif broken:
                verdict = 'TIE BROKEN'
            elif unav:
                verdict = 'UNAVAILABLE'
            else:
                verdict = 'proved'
            detail = '; '.join(broken + (['untranslated: ' + ', '.join(unav)] if unav else []))
            rows.append((kind, name, verdict, detail))
            print('%s | %-62s | %-11s | %s' % (kind, name, verdict, detail), flush=True)
    finally:
        restore()
        unav, broken = evaluate()          # leave the generated file and the build in the state of the clean tree
    print()
    print('clean tree afterwards: untranslated=%s broken=%s' % (unav, broken))
    nb = [r for r in rows if r[0] == 'B']
    np_ = [r for r in rows if r[0] == 'P']
    print('behaviour-changing : %d mutants, %d tie broken, %d unavailable, %d PROVED (must be 0), %d not applied'
          % (len(nb), sum(r[2] == 'TIE BROKEN' for r in nb), sum(r[2] == 'UNAVAILABLE' for r in nb), sum(r[2] == 'proved' for r in nb),
             sum(r[2] == 'MUTANT NOT APPLIED' for r in nb)))
    print('behaviour-preserving: %d rewrites, %d proved, %d unavailable, %d tie broken, %d not applied'
          % (len(np_), sum(r[2] == 'proved' for r in np_), sum(r[2] == 'UNAVAILABLE' for r in np_), sum(r[2] == 'TIE BROKEN' for r in np_),
             sum(r[2] == 'MUTANT NOT APPLIED' for r in np_)))
    return 1 if any(r[2] in ('proved', 'ERROR', 'MUTANT NOT APPLIED') for r in nb) else 0


if __name__ == '__main__':
    sys.exit(main())
