#!/venv/bin/python
"""
Self-test of the source tie of stream `dispatch` (harness/trans_dispatch.py, lean/PelProps/TieC01.lean + TieC18.lean).

Applies source MUTANTS one at a time to the repository worktree named by VERIF_REPO (never /repo), regenerates
lean/PelGen/GenDispatch.lean with harness/extract.py, builds PelProps.TieC01 / PelProps.TieC18 and prints a table

    mutant | kind | function | translated? | tie proved? | verdict

kind B = behaviour-changing (expected: tie BROKEN or translation UNAVAILABLE, never proved),
kind P = behaviour-preserving (ideally still proved, UNAVAILABLE acceptable, BROKEN reported).
The worktree is always restored (`git checkout -- .`) and the generated file regenerated from the clean tree.

    VERIF_REPO=/tmp/work/T6/repo tools/transtest_dispatch.py [-k substring]
"""
import os
import re
import subprocess
import sys

VERIF = os.path.dirname(os.path.dirname(os.path.abspath(__file__)))
REPO = os.environ.get('VERIF_REPO')
if not REPO or os.path.realpath(REPO) == '/repo':
    sys.exit('set VERIF_REPO to a scratch worktree (never /repo)')
PY = '/venv/bin/python'
LEAN = os.path.join(VERIF, 'lean')

PL = 'modules/pel/peltool/peltool.py'
TY = 'modules/pel/peltool/pel_types.py'
DF = 'modules/pel/peltool/default.py'
SR = 'modules/pel/peltool/src.py'
PU = 'modules/pel/peltool/parse_user_data.py'
MC = 'modules/udparsers/m2c00/m2c00.py'
OS = 'modules/srcparsers/osrc/osrc.py'
OC = 'modules/calloutparsers/ocallouts/ocallouts.py'

# generated definition -> Tie module that holds its theorem
C01 = {'generateSRC', 'generateEH', 'generateMT', 'generateED', 'generateUD', 'generateIP', 'generateDefault', 'sectionFun', 'sectionLoop'}


def tie_of(target):
    return 'TieC01' if target in C01 else 'TieC18'


def rep(old, new, count=1):
    def f(text):
        if text.count(old) != count:
            raise RuntimeError('pattern %r occurs %d times, expected %d' % (old, text.count(old), count))
        return text.replace(old, new)
    return f


def rex(pat, new, count=None):
    def f(text):
        out, n = re.subn(pat, new, text)
        if n == 0 or (count is not None and n != count):
            raise RuntimeError('pattern %r matched %d times' % (pat, n))
        return out
    return f


def seq(*fs):
    def f(text):
        for g in fs:
            text = g(text)
        return text
    return f


def infn(name, edit, indent=''):
    """apply `edit` to the text of one function only (from its `def` to the next definition at the same indentation)"""
    def f(text):
        m = re.search(r'^%sdef %s\(' % (indent, re.escape(name)), text, re.M)
        if not m:
            raise RuntimeError('no function %s' % name)
        n = re.search(r'^%s(def |class |@|if __name__)' % indent, text[m.end():], re.M)
        end = m.end() + n.start() if n else len(text)
        return text[:m.start()] + edit(text[m.start():end]) + text[end:]
    return f


SF_EH = """    elif sectionID == SectionID.extendedUserHeader.value:
        generateEH(stream, out, sectionID, sectionLen,
                   versionID, subType, componentID, creatorID)
"""
SF_MT = """    elif sectionID == SectionID.failingMTMS.value:
        generateMT(stream, out, sectionID, sectionLen,
                   versionID, subType, componentID, creatorID)
"""
LOOP_CALL = """        sectionFun(stream, section_json, sectionID, sectionLen,
                   versionID, subType, componentID, ph.creatorID, config)
        section_jsons.append(section_json)
"""

# (id, kind, generated definition concerned, file, edit, description)
MUTANTS = [
    # ---------------- behaviour-changing: peltool.py
    ('B01', 'B', 'sectionFun', PL, infn('sectionFun', seq(rep('SectionID.extendedUserHeader.value', 'SectionID.TMP.value'), rep('SectionID.failingMTMS.value', 'SectionID.extendedUserHeader.value'),
                                                       rep('SectionID.TMP.value', 'SectionID.failingMTMS.value'))), 'sectionFun: EH and MT ids exchanged (EH sections go to the MT decoder)'),
    ('B02', 'B', 'sectionFun', PL, rep('    if sectionID == SectionID.primarySRC.value or \\\n            sectionID == SectionID.secondarySRC.value:', '    if sectionID == SectionID.primarySRC.value:'),
     'sectionFun: secondary SRC no longer routed to the SRC decoder'),
    ('B03', 'B', 'sectionFun', PL, rep('elif sectionID == SectionID.extUserData.value:', 'elif sectionID != SectionID.extUserData.value:'), 'sectionFun: == became != in the ED test'),
    ('B04', 'B', 'sectionFun', PL, rep('elif sectionID == SectionID.impactedPart.value:', 'elif sectionID == SectionID.logicalResource.value:'), 'sectionFun: LP branch tests another id'),
    ('B05', 'B', 'sectionFun', TY, rep('extUserData = 0x4544', 'extUserData = 0x4545'), 'pel_types: value of SectionID.extUserData'),
    ('B06', 'B', 'generateED', PL, rep('ed = ExtUserData(stream, sectionID, sectionLen,', 'ed = ExtUserData(stream, sectionLen, sectionID,'), 'generateED: id and length exchanged in the constructor call'),
    ('B07', 'B', 'generateUD', PL, rep('ud = UserData(stream, sectionID, sectionLen, versionID,\n                  subType, componentID, creatorID)',
                                     'ud = UserData(stream, sectionID, sectionLen, subType,\n                  versionID, componentID, creatorID)'), 'generateUD: version and sub-type exchanged'),
    ('B08', 'B', 'generateSRC', PL, rep('out[getSectionName(sectionID)] = src.toJSON(config)', 'out[getSectionName(subType)] = src.toJSON(config)'), 'generateSRC: stored under the name of another field'),
    ('B09', 'B', 'generateMT', PL, rep('mt = FailingMTMS(stream,', 'mt = ImpactedPartition(stream,'), 'generateMT: another class constructed'),
    ('B10', 'B', 'generateEH', PL, rep('    out[getSectionName(sectionID)] = eh.toJSON()\n', '    eh.toJSON()\n'), 'generateEH: result not stored'),
    ('B11', 'B', 'generateIP', PL, rep('    out[getSectionName(sectionID)] = ip.toJSON()\n', '    out[getSectionName(sectionID)] = ip.toJSON()\n    out["Extra"] = 1\n'), 'generateIP: a second member stored'),
    ('B12', 'B', 'sectionFun', PL, rep(SF_EH, SF_EH.replace('versionID, subType, componentID', 'subType, versionID, componentID')), 'sectionFun: arguments of the generateEH call exchanged'),
    ('B13', 'B', 'sectionFun', PL, rep('        generateDefault(stream, out, sectionID, sectionLen,\n                        versionID, subType, componentID)',
                                     '        generateED(stream, out, sectionID, sectionLen,\n                   versionID, subType, componentID, config)'), 'sectionFun: unknown ids go to the ED decoder'),
    ('B14', 'B', 'sectionLoop', PL, infn('parsePEL', rep('for _ in range(2, ph.sectionCount):', 'for _ in range(1, ph.sectionCount):')), 'parsePEL: loop starts at 1'),
    ('B15', 'B', 'sectionLoop', PL, infn('parsePEL', rep('for _ in range(2, ph.sectionCount):', 'for _ in range(2, ph.sectionCount + 1):')), 'parsePEL: one more iteration'),
    ('B16', 'B', 'sectionLoop', PL, infn('parsePEL', rep('componentID, ph.creatorID, config)', 'componentID, "B", config)')), 'parsePEL: constant creator id handed to sectionFun'),
    ('B17', 'B', 'sectionLoop', PL, infn('parsePEL', rep('        section_jsons.append(section_json)\n', '        section_jsons.append(section_json)\n        section_jsons.append(section_json)\n')),
     'parsePEL: every section appended twice'),
    ('B18', 'B', 'sectionLoop', PL, infn('parsePEL', rep('sectionID, sectionLen, versionID, subType, componentID = parseHeader(', 'sectionLen, sectionID, versionID, subType, componentID = parseHeader(')),
     'parsePEL: header fields unpacked in another order'),
    ('B19', 'B', 'sectionLoop', PL, infn('parsePEL', rep('        section_json = OrderedDict()\n', '        if sectionID == 0:\n            continue\n        section_json = OrderedDict()\n')), 'parsePEL: some sections skipped (continue)'),
    ('B20', 'B', 'generateDefault', PL, rep('ed = Default(stream, sectionID, sectionLen,\n', 'ed = Default(stream, sectionID, sectionLen - 4,\n'), 'generateDefault: length changed'),
    ('B21', 'B', 'generateDefault', DF, rep('sectionLen: int,\n                 versionID: int, subType: int', 'sectionLen: int,\n                 subType: int, versionID: int'), 'Default: constructor parameters exchanged'),
    ('B22', 'B', 'generateSRC', PL, rep('out[getSectionName(sectionID)] = src.toJSON(config)', 'out[getSectionName(sectionID)] = src.toJSON(Config())'), 'generateSRC: a fresh Config instead of the caller\'s'),
    ('B23', 'B', 'sectionLoop', PL, infn('parsePEL', rep(LOOP_CALL, LOOP_CALL.replace('        section_jsons.append(section_json)\n', '') )), 'parsePEL: sections never collected'),
    ('B24', 'B', 'generateUD', PL, rep('    out[getSectionName(sectionID)] = ud.toJSON(config)', '    out["User Data"] = ud.toJSON(config)'), 'generateUD: fixed key instead of the name of the id'),
    ('B25', 'B', 'sectionLoop', PL, infn('parsePEL', rep('    section_jsons = []\n', '    ph.sectionCount = ph.sectionCount - 1\n    section_jsons = []\n')), 'parsePEL: section count changed before the loop (attribute store)'),
    ('B26', 'B', 'generateMT', PL, rep('    mt = FailingMTMS(stream,', '    stream.get_int(2)\n    mt = FailingMTMS(stream,'), 'generateMT: two bytes skipped before the section is constructed'),
    ('B27', 'B', 'generateIP', PL, rep('    out[getSectionName(sectionID)] = ip.toJSON()\n', '    ip.toJSON()\n    out[getSectionName(sectionID)] = ip.toJSON()\n'), 'generateIP: toJSON called twice'),
    ('B28', 'B', 'sectionFun', PL, infn('sectionFun', rep('    if sectionID == SectionID.primarySRC.value', '    if sectionLen == 0:\n        return\n    if sectionID == SectionID.primarySRC.value')), 'sectionFun: empty sections silently dropped (early return)'),
    # ---------------- behaviour-changing: m2c00.py
    ('B30', 'B', 'm2c00', MC, rep('SUB_TYPE_ILOG = 73', 'SUB_TYPE_ILOG = 74'), 'm2c00: ILOG sub-type constant'),
    ('B31', 'B', 'm2c00', MC, rep('        SUB_TYPE_HLOG: _parse_hlog,\n        SUB_TYPE_ILOG: _parse_ilog,', '        SUB_TYPE_HLOG: _parse_ilog,\n        SUB_TYPE_ILOG: _parse_hlog,'), 'm2c00: hlog and ilog parsers exchanged in the routing table'),
    ('B32', 'B', 'm2c00', MC, rep('parsers.get(sub_type, _parse_unsupported)', 'parsers.get(sub_type, _parse_hlog)'), 'm2c00: default of the routing table'),
    ('B33', 'B', 'm2c00', MC, rep('if drawer_type.user_data_version == version:', 'if drawer_type.user_data_version >= version:'), '_get_drawer_type: comparison'),
    ('B34', 'B', 'm2c00Hlog', MC, rep("return {'History Log': lines}", "return {'History log': lines}"), '_parse_hlog: key text'),
    ('B35', 'B', 'm2c00Trace', MC, rep('string_file_path = drawer_type.get_trace_string_file_path()', 'string_file_path = drawer_type.get_header_file_path()'), '_parse_trace: reads the header file'),
    ('B36', 'B', 'm2c00', MC, rep("f'Unable to format data: {str(e)}'", "f'Unable to parse data: {str(e)}'"), 'm2c00: error text'),
    ('B37', 'B', 'm2c00', MC, rep("        output['Data'] = hexdump(data)\n", ''), 'm2c00: error object without the dump (statement dropped)'),
    ('B38', 'B', 'm2c00Ilog', MC, infn('_parse_ilog', rep('    if data:', '    if not data:')), '_parse_ilog: test negated'),
    ('B39', 'B', 'm2c00', MC, rep('        lines = hexdump(data)\n', '        lines = hexdump(data, 8)\n'), '_parse_unsupported: other line length'),
    ('B40', 'B', 'm2c00', MC, rep("f'Unexpected user data section version: {version}'", "f'Unexpected user data section version: {version:02X}'"), '_get_drawer_type: version shown in hex'),
    ('B41', 'B', 'm2c00', MC, rep('    except Exception as e:', '    except KeyError as e:'), 'm2c00: handler no longer catches the ValueError'),
    ('B42', 'B', 'm2c00', MC, rep('    output = OrderedDict()\n', "    output = OrderedDict()\n    output['Version'] = version\n"), 'm2c00: error object gets another member first'),
    ('B43', 'B', 'm2c00Hlog', MC, infn('_parse_hlog', rep('lines = parse_hlog_data(data, header_file_path)', 'lines = parse_ilog_data(data, header_file_path)')), '_parse_hlog: calls the ilog decoder'),
    ('B44', 'B', 'm2c00', MC, rep('if drawer_type.user_data_version == version:\n            return drawer_type', 'if drawer_type.user_data_version == version:\n            return DRAWER_TYPES[0]'), '_get_drawer_type: always the first drawer'),
    ('B45', 'B', 'm2c00Hlog', MC, infn('_parse_hlog', rep('    if data:', '    if version:')), '_parse_hlog: decodes when the version is non-zero instead of when there is data'),
    ('B46', 'B', 'm2c00', MC, lambda t: t + '\nSUB_TYPE_TRACE = 85\n', 'm2c00: a constant rebound at the end of the module'),
    # ---------------- behaviour-changing: osrc.py
    ('B50', 'B', 'osrcModuleName', OS, rep('refcode[4:6]', 'refcode[2:4]'), 'osrc: other characters of the reference code'),
    ('B51', 'B', 'osrcModuleName', OS, rep("+ '00'", "+ '01'"), 'osrc: suffix of the component name'),
    ('B52', 'B', 'osrcModuleName', OS, rep('refcode[4:6].lower()', 'refcode[4:6]'), 'osrc: component not lower-cased'),
    ('B53', 'B', 'osrcModuleName', OS, rep("if refcode[:2] == 'BC':", "if refcode[:2] == 'BD':"), 'osrc: hostboot routing for BD codes'),
    ('B54', 'B', 'osrcModuleName', OS, rep("name = 'bsrc'", "name = 'hsrc'"), 'osrc: name of the hostboot parser'),
    ('B55', 'B', 'osrcLookup', OS, rep('except ModuleNotFoundError:', 'except ImportError:'), 'osrc: handler catches every ImportError'),
    ('B56', 'B', 'osrcLookup', OS, rep('    except ModuleNotFoundError:\n        osrcParsers[module_name] = None\n', '    except ModuleNotFoundError:\n'), 'osrc: a missing module is no longer remembered'),
    ('B57', 'B', 'osrcLookup', OS, rep('            osrcParsers[module_name] = module\n', ''), 'osrc: a found module is no longer remembered'),
    ('B58', 'B', 'osrcLookup', OS, rep('        if module is None:', '        if module is not None:'), 'osrc: None test inverted'),
    ('B59', 'B', 'osrcLookup', OS, rep('word2, word3, word4, word5,\n                                        word6', 'word3, word2, word4, word5,\n                                        word6'), 'osrc: words forwarded in another order'),
    ('B60', 'B', 'osrcModuleName', OS, rep("subsystem = 'o'", "subsystem = 'b'"), 'osrc: subsystem letter'),
    ('B61', 'B', 'osrcModuleName', OS, rep("module_name = '.'.join(['srcparsers', component, component])", "module_name = '.'.join(['srcparsers', component])"), 'osrc: module path with two parts'),
    ('B62', 'B', 'osrcLookup', OS, rep('except ModuleNotFoundError:', 'except:'), 'osrc: bare except'),
    ('B63', 'B', 'osrcLookup', OS, rep('            module = osrcParsers[module_name]\n', '            module = None\n'), 'osrc: cached module ignored'),
    ('B64', 'B', 'osrcLookup', OS, rep('osrcParsers = {}', "osrcParsers = {'srcparsers.bsrc.bsrc': None}"), 'osrc: the table starts with an entry'),
    ('B65', 'B', 'osrcLookup', OS, rep('            osrcParsers[module_name] = module\n', '            osrcParsers[component] = module\n'), 'osrc: a found module is remembered under another key'),
    # ---------------- behaviour-changing: src.py, parse_user_data.py, ocallouts.py
    ('B70', 'B', 'srcParserModule', SR, rep('name = self.creatorID.lower() + "src"', 'name = self.creatorID.lower() + "srcs"'), 'SRC.parse: suffix of the module name'),
    ('B71', 'B', 'srcParserModule', SR, rep('name = self.creatorID.lower() + "src"', 'name = self.creatorID.upper() + "src"'), 'SRC.parse: creator in upper case'),
    ('B72', 'B', 'srcParserModule', SR, rep('srcParserMod = "srcparsers." + name + "." + name', 'srcParserMod = "srcparsers." + name'), 'SRC.parse: module path with two parts'),
    ('B73', 'B', 'srcParserModule', SR, rep('        name = self.creatorID.lower() + "src"\n', '        self.creatorID = "o"\n        name = self.creatorID.lower() + "src"\n'), 'SRC.parse: creator overwritten before the name is built'),
    ('B74', 'B', 'srcParserModule', SR, rep('        self.creatorID = creatorID\n', '        self.creatorID = subType\n'), 'SRC.__init__: another parameter stored as the creator'),
    ('B75', 'B', 'udParserModule', PU, rep('"%04X" % self.compID).lower()', '"%02X" % self.compID).lower()'), 'parseCustom: component id with two digits'),
    ('B76', 'B', 'udParserModule', PU, rep('"%04X" % self.compID).lower()', '"%04X" % self.compID)'), 'parseCustom: hex digits not lower-cased'),
    ('B77', 'B', 'udParserModule', PU, rep('"%04X" % self.compID).lower()', '"%04X" % self.subType).lower()'), 'parseCustom: sub-type instead of component id'),
    ('B78', 'B', 'udParserModule', PU, rep('userDataParserMod = "udparsers." + name', 'userDataParserMod = "udparser." + name'), 'parseCustom: package name'),
    ('B79', 'B', 'udParserModule', PU, rep('        self.compID = compID\n', '        self.compID = version\n'), 'ParseUserData.__init__: another parameter stored as the component id'),
    ('B80', 'B', 'getMaintProcDesc', OC, rep("    return ''", "    return '[]'"), 'ocallouts: unknown procedure described by an empty list'),
    ('B81', 'B', 'getMaintProcDesc', OC, rep('json.dumps(procedures[procedure])', 'json.dumps(procedures[procedure][:1])'), 'ocallouts: only the first line'),
    ('B82', 'B', 'getMaintProcDesc', OC, rep('json.dumps(procedures[procedure])', 'json.dumps(procedure)'), 'ocallouts: the id instead of the description'),
    ('B83', 'B', 'getMaintProcDesc', OC, rep('    if procedure in procedures:', '    if procedure not in procedures:'), 'ocallouts: test negated'),
    ('B84', 'B', 'getMaintProcDesc', OC, rep('    "BMC0001": [\n        "A problem has been detected in the eBMC firmware."\n    ],', '    "BMC0001": "A problem has been detected in the eBMC firmware.",'), 'ocallouts: a description that is a str, not a list'),
    # ---------------- behaviour-preserving
    ('P01', 'P', 'sectionFun', PL, infn('sectionFun', seq(rex(r'\bsectionID\b', 'sid'), rex(r'\bsectionLen\b', 'length'), rex(r'\bcreatorID\b', 'creator'), rex(r'\bout\b', 'result'), rex(r'\bconfig\b', 'cfg'))),
     'sectionFun: parameters renamed'),
    ('P02', 'P', 'generateUD', PL, infn('generateUD', seq(rex(r'\bud\b', 'section'), rex(r'\bout\b', 'result'), rex(r'\bsubType\b', 'st'))), 'generateUD: locals and parameters renamed'),
    ('P03', 'P', 'sectionFun', PL, rep(SF_EH + SF_MT, SF_MT.replace('elif sectionID == SectionID.failingMTMS', 'elif sectionID == SectionID.failingMTMS') + SF_EH), 'sectionFun: two branches with disjoint tests in the other order'),
    ('P04', 'P', 'sectionFun', PL, rep('    if sectionID == SectionID.primarySRC.value or \\\n            sectionID == SectionID.secondarySRC.value:',
                                     '    if sectionID == SectionID.secondarySRC.value or \\\n            sectionID == SectionID.primarySRC.value:'), 'sectionFun: disjuncts exchanged'),
    ('P05', 'P', 'sectionFun', PL, rep('elif sectionID == SectionID.userData.value:', 'elif SectionID.userData.value == sectionID:'), 'sectionFun: comparison written the other way round'),
    ('P06', 'P', 'generateSRC', PL, rep('    out[getSectionName(sectionID)] = src.toJSON(config)\n    return True, src', '    key = getSectionName(sectionID)\n    rendered = src.toJSON(config)\n    out[key] = rendered\n    return True, src'),
     'generateSRC: temporaries extracted'),
    ('P07', 'P', 'sectionLoop', PL, infn('parsePEL', seq(rex(r'\bsection_jsons\b', 'collected'), rex(r'\bsection_json\b', 'sj'), rex(r'\bph\b', 'private_header'))), 'parsePEL: locals renamed'),
    ('P08', 'P', 'sectionFun', PL, seq(rep('               componentID: int, creatorID: str, config: Config):\n    if sectionID == SectionID.primarySRC.value',
                                         '               componentID: int, creatorID: str, config: Config) -> None:\n    """route one section to its decoder"""\n    # SRC sections first\n    if sectionID == SectionID.primarySRC.value'),
                                     rep('    eh = ExtendedUserHeader(stream,', '    eh: ExtendedUserHeader = ExtendedUserHeader(stream,')), 'sectionFun / generateEH: docstring, comment, type hints'),
    ('P09', 'P', 'sectionFun', PL, infn('sectionFun', seq(rex(r'    elif ', '    if '), rex(r'(\n        generate(?!Default)\w+\([^)]*\))', r'\1\n        return'), rep('    else:\n        generateDefault(stream, out, sectionID, sectionLen,\n                        versionID, subType, componentID)',
                                                           '    generateDefault(stream, out, sectionID, sectionLen,\n                    versionID, subType, componentID)'))), 'sectionFun: early returns instead of elif'),
    ('P10', 'P', 'sectionLoop', PL, infn('parsePEL', rep('for _ in range(2, ph.sectionCount):', 'for index in range(2, ph.sectionCount):')), 'parsePEL: loop variable named'),
    ('P11', 'P', 'sectionLoop', PL, infn('parsePEL', seq(rex(r'\bsectionID\b', 'sid'), rex(r'\bversionID\b', 'ver'), rex(r'\bsubType\b', 'sub'))), 'parsePEL: header variables renamed'),
    ('P12', 'P', 'generateED', PL, rep('    ed = ExtUserData(stream, sectionID, sectionLen,\n                     versionID, subType, componentID)\n    out[getSectionName(sectionID)] = ed.toJSON(config)',
                                     '    data_stream = stream\n    out[getSectionName(sectionID)] = ExtUserData(data_stream, sectionID, sectionLen,\n                                                 versionID, subType, componentID).toJSON(config)\n    ed = None'),
     'generateED: constructed and rendered in one expression, stream alias'),
    ('P13', 'P', 'sectionFun', PL, infn('sectionFun', seq(rex(r'SectionID\.', 'ids.'), rep('    if sectionID == ids.primarySRC.value', '    ids = SectionID\n    if sectionID == ids.primarySRC.value'))), 'sectionFun: local alias for the enumeration'),
    ('P20', 'P', 'm2c00Hlog', MC, infn('_parse_hlog', seq(rex(r'\blines\b', 'result'), rex(r'\bdrawer_type\b', 'dt'), rex(r'\bheader_file_path\b', 'path'))), '_parse_hlog: locals renamed'),
    ('P21', 'P', 'm2c00', MC, rep("f'Unexpected user data section version: {version}'", "'Unexpected user data section version: {}'.format(version)"), '_get_drawer_type: format instead of f-string'),
    ('P22', 'P', 'm2c00', MC, rep("f'Unable to format data: {str(e)}'", "'Unable to format data: ' + str(e)"), 'm2c00: concatenation instead of f-string'),
    ('P23', 'P', 'm2c00Ilog', MC, infn('_parse_ilog', rep('        header_file_path = drawer_type.get_header_file_path()\n        lines = parse_ilog_data(data, header_file_path)', '        lines = parse_ilog_data(data, _get_drawer_type(version).get_header_file_path())')),
     '_parse_ilog: temporaries inlined'),
    ('P24', 'P', 'm2c00', MC, infn('_parse_unsupported', rep("    lines = []\n    if data:\n        lines = hexdump(data)\n    return {'Data': lines}", "    if not data:\n        return {'Data': []}\n    return {'Data': hexdump(data)}")),
     '_parse_unsupported: early return'),
    ('P25', 'P', 'm2c00', MC, rep('        SUB_TYPE_HLOG: _parse_hlog,\n        SUB_TYPE_ILOG: _parse_ilog,\n        SUB_TYPE_TRACE: _parse_trace\n', '        SUB_TYPE_TRACE: _parse_trace,\n        SUB_TYPE_HLOG: _parse_hlog,\n        SUB_TYPE_ILOG: _parse_ilog\n'),
     'm2c00: routing table written in another order'),
    ('P26', 'P', 'm2c00', MC, rep("    parsers = {\n        SUB_TYPE_HLOG: _parse_hlog,\n        SUB_TYPE_ILOG: _parse_ilog,\n        SUB_TYPE_TRACE: _parse_trace\n    }\n    parser = parsers.get(sub_type, _parse_unsupported)\n",
                                    "    if sub_type == SUB_TYPE_HLOG:\n        parser = _parse_hlog\n    elif sub_type == SUB_TYPE_ILOG:\n        parser = _parse_ilog\n    elif sub_type == SUB_TYPE_TRACE:\n        parser = _parse_trace\n    else:\n        parser = _parse_unsupported\n"),
     'm2c00: if/elif instead of the routing table'),
    ('P27', 'P', 'm2c00', MC, rep('if drawer_type.user_data_version == version:', 'if version == drawer_type.user_data_version:'), '_get_drawer_type: comparison the other way round'),
    ('P28', 'P', 'm2c00Trace', MC, infn('_parse_trace', rep('    if data:', '    if len(data) != 0:')), '_parse_trace: explicit length test'),
    ('P30', 'P', 'osrcLookup', OS, seq(rex(r'\bmodule_name\b', 'modname'), rex(r'\bmodule\b(?! does| exist|, which| was| if| is simply)', 'mod')), 'osrc: locals renamed'),
    ('P31', 'P', 'osrcModuleName', OS, rep("module_name = '.'.join(['srcparsers', component, component])", "module_name = 'srcparsers.' + component + '.' + component"), 'osrc: concatenation instead of join'),
    ('P32', 'P', 'osrcLookup', OS, rep("""        if module_name in osrcParsers:
            module = osrcParsers[module_name]
        else:
            # Grab the module if it exist. If not, it will throw an exception.
            module = importlib.import_module(module_name)
            osrcParsers[module_name] = module
""", """        if module_name not in osrcParsers:
            module = importlib.import_module(module_name)
            osrcParsers[module_name] = module
        else:
            module = osrcParsers[module_name]
"""), 'osrc: membership test negated, branches exchanged'),
    ('P33', 'P', 'osrcLookup', OS, rep("""        if module is None:
            # The module, which was previously checked, is not found.
            out = json.dumps(None)
        else:
            # The module was found. Call the component parser in that module.
            out = module.parseSRCToJson(refcode,
                                        word2, word3, word4, word5,
                                        word6, word7, word8, word9)
""", """        if module is not None:
            out = module.parseSRCToJson(refcode,
                                        word2, word3, word4, word5,
                                        word6, word7, word8, word9)
        else:
            out = json.dumps(None)
"""), 'osrc: None test negated, branches exchanged'),
    ('P34', 'P', 'osrcModuleName', OS, rep("if refcode[:2] == 'BC':", "if refcode[0:2] == 'BC':"), 'osrc: explicit lower slice bound'),
    ('P35', 'P', 'osrcLookup', OS, rep("    return out", "    result: str = out\n    return result"), 'osrc: result through a typed temporary'),
    ('P36', 'P', 'osrcLookup', OS, rep('except ModuleNotFoundError:', 'except ModuleNotFoundError as err:'), 'osrc: handler names the exception'),
    ('P37', 'P', 'osrcModuleName', OS, rep("    subsystem = 'o'\n    component = subsystem + refcode[4:6].lower() + '00'", "    component = 'o' + refcode[4:6].lower() + '00'"), 'osrc: constant inlined'),
    ('P40', 'P', 'srcParserModule', SR, rep('name = self.creatorID.lower() + "src"', 'name = f"{self.creatorID.lower()}src"'), 'SRC.parse: f-string'),
    ('P41', 'P', 'udParserModule', PU, rep('"%04X" % self.compID).lower()', '"{:04X}".format(self.compID)).lower()'), 'parseCustom: format instead of %'),
    ('P42', 'P', 'udParserModule', PU, rep('        name = (self.creatorID.lower() + "%04X" % self.compID).lower()\n', '        creator = self.creatorID.lower()\n        comp = "%04X" % self.compID\n        name = (creator + comp).lower()\n'),
     'parseCustom: temporaries extracted'),
    ('P43', 'P', 'udParserModule', PU, seq(rex(r'\buserDataParserMod\b', 'modname'), rex(r'(?<!self\.)\bname\b', 'short')), 'parseCustom: locals renamed'),
    ('P44', 'P', 'getMaintProcDesc', OC, rep("    if procedure in procedures:\n        return json.dumps(procedures[procedure])\n    return ''", "    if procedure not in procedures:\n        return ''\n    return json.dumps(procedures[procedure])"),
     'ocallouts: test negated, branches exchanged'),
    ('P45', 'P', 'getMaintProcDesc', OC, infn('getMaintProcDesc', seq(rex(r'\bprocedure\b', 'proc_id'), rep('        return json.dumps(procedures[proc_id])', '        lines = procedures[proc_id]\n        return json.dumps(lines)'))),
     'ocallouts: parameter renamed, temporary extracted'),
    ('P46', 'P', 'srcParserModule', SR, seq(rex(r'\bsrcParserMod\b', 'module_path'), rep('        name = self.creatorID.lower() + "src"\n', '        # the parser of this creator\n        name: str = self.creatorID.lower() + "src"\n')),
     'SRC.parse: local renamed, comment, type hint'),
]


def run(cmd, cwd, timeout=1800):
    env = dict(os.environ, VERIF_REPO=REPO, PYTHONDONTWRITEBYTECODE='1')
    r = subprocess.run(cmd, cwd=cwd, env=env, stdout=subprocess.PIPE, stderr=subprocess.STDOUT, text=True, timeout=timeout)
    return r.returncode, r.stdout


def restore():
    run(['git', 'checkout', '--', '.'], REPO)


def tie_theorems(mod):
    out = []
    for n, line in enumerate(open(os.path.join(LEAN, 'PelProps', mod + '.lean')), 1):
        m = re.match(r'\s*theorem\s+(\S+)', line)
        if m:
            out.append((n, m.group(1)))
    return out


def evaluate(target):
    """-> (translated?, proved?, detail)"""
    rc, out = run([PY, os.path.join(VERIF, 'harness', 'extract.py')], VERIF)
    if rc != 0:
        return None, None, 'extract.py failed: ' + out[-300:]
    unavailable = {}
    for l in out.split('\n'):
        if l.startswith('TRANSLATION-UNAVAILABLE '):
            nm, _, why = l[len('TRANSLATION-UNAVAILABLE '):].partition(' ')
            unavailable[nm] = why
    mods = ['TieC01', 'TieC18'] if target == '-' else [tie_of(target)]
    broken, ok = [], True
    for mod in mods:
        rc, out = run(['lake', 'build', 'PelProps.' + mod], LEAN)
        if rc != 0:
            ok = False
            ths = tie_theorems(mod)
            found = False
            for m in re.finditer(r'%s\.lean:(\d+):\d+' % mod, out):
                ln = int(m.group(1))
                owner = None
                for st, nm in ths:
                    if st <= ln:
                        owner = nm
                if owner and owner not in broken:
                    broken.append(owner)
                    found = True
            if not found:
                broken.append(mod + '?')
    others = [u for u in unavailable if u != target]
    detail = ''
    if target in unavailable:
        detail = unavailable[target]
    if others:
        detail += ' [also unavailable: %s]' % ', '.join(others)
    if broken:
        detail += ' broken: ' + ', '.join(broken)
    return target not in unavailable, ok, detail.strip()


def main():
    args = sys.argv[1:]
    sel = None
    if '-k' in args:
        sel = args[args.index('-k') + 1]
    rc, out = run(['git', 'status', '--porcelain'], REPO)
    if out.strip():
        sys.exit('the worktree %s is not clean:\n%s' % (REPO, out))
    rows = []
    bad = 0
    fmt = '%-4s %-1s %-16s %-11s %-7s %s'
    try:
        t, p, d = evaluate('-')
        print(fmt % ('id', 'k', 'function', 'translated', 'tie', 'verdict / description'))
        print(fmt % ('base', '-', '(all)', 'yes' if not d else 'NO', 'proved' if p else 'BROKEN', ('unexpected: ' + d) if d or not p else 'clean tree'))
        if d or not p:
            bad += 1
        for mid, kind, target, path, edit, desc in MUTANTS:
            if sel and sel not in mid and sel not in target:
                continue
            full = os.path.join(REPO, path)
            text = open(full, encoding='utf-8').read()
            try:
                new = edit(text)
            except RuntimeError as e:
                print(fmt % (mid, kind, target, '-', '-', 'MUTANT DOES NOT APPLY: %s' % e))
                bad += 1
                continue
            try:
                compile(new, full, 'exec')
            except SyntaxError as e:
                print(fmt % (mid, kind, target, '-', '-', 'MUTANT IS NOT PYTHON: %s' % e))
                bad += 1
                continue
            with open(full, 'w', encoding='utf-8') as f:
                f.write(new)
            try:
                t, p, d = evaluate(target)
            finally:
                restore()
            if t is None:
                verdict = 'ERROR ' + d
                bad += 1
            elif not t:
                verdict = 'ok (unavailable)' if kind == 'B' else 'acceptable (unavailable)'
            elif p:
                verdict = 'ok (still proved)' if kind == 'P' else '*** MISSED: behaviour change still proved ***'
                bad += kind == 'B'
            else:
                verdict = 'ok (tie broken)' if kind == 'B' else 'FALSE ALARM (tie broken on a harmless rewrite)'
            print(fmt % (mid, kind, target, 'yes' if t else 'UNAVAILABLE', ('proved' if p else 'BROKEN') if t else '-',
                         '%s | %s%s' % (verdict, desc, (' | ' + d) if d else '')))
            sys.stdout.flush()
            rows.append((mid, kind, t, p))
    finally:
        restore()
        evaluate('-')
    nb = [r for r in rows if r[1] == 'B']
    npp = [r for r in rows if r[1] == 'P']
    print('behaviour-changing: %d mutants, %d tie broken, %d unavailable, %d MISSED' % (
        len(nb), sum(1 for r in nb if r[2] and not r[3]), sum(1 for r in nb if not r[2]), sum(1 for r in nb if r[2] and r[3])))
    print('behaviour-preserving: %d rewrites, %d still proved, %d unavailable, %d tie broken' % (
        len(npp), sum(1 for r in npp if r[2] and r[3]), sum(1 for r in npp if not r[2]), sum(1 for r in npp if r[2] and not r[3])))
    sys.exit(1 if bad else 0)


if __name__ == '__main__':
    main()
