#!/venv/bin/python
"""
Self-test of the source-to-Lean tie of stream `peltool` (harness/trans_peltool.py, lean/PelProps/TieC01|C07|C10|C11.lean).

Applies source MUTANTS one at a time to the repository worktree named by VERIF_REPO (never /repo), runs harness/extract.py
(regenerates lean/PelGen/GenPeltool.lean from the mutated text) and `lake build` of the four tie modules, and prints

    mutant | kind | verdict | definitions that became `none` | tie modules that no longer build

verdict:  PROVED       every definition is still generated and every tie theorem is still proved
          UNAVAILABLE  the mutated function left the translatable subset (`none`); the ties that remain are proved
          BROKEN       a generated definition is no longer provably equal to the model (a tie module does not build)
Expected: a behaviour-CHANGING mutant is never PROVED; a behaviour-PRESERVING rewrite is ideally PROVED, acceptably
UNAVAILABLE, and should rarely be BROKEN.  The worktree is always restored (`git checkout -- .`), and the generated file is
regenerated from the clean tree at the end.

usage: VERIF_REPO=/tmp/work/T2/repo tools/transtest_peltool.py [substring of mutant names …]
"""
import os
import re
import subprocess
import sys
import time

VERIF = os.path.dirname(os.path.dirname(os.path.abspath(__file__)))
REPO = os.environ.get('VERIF_REPO')
if not REPO or os.path.realpath(REPO) == '/repo':
    sys.exit('set VERIF_REPO to a scratch worktree (never /repo)')
PT = 'modules/pel/peltool/peltool.py'
UH = 'modules/pel/peltool/user_header.py'
CF = 'modules/pel/peltool/config.py'
TIES = ['TieC01', 'TieC07', 'TieC10', 'TieC11']


def sub(path, old, new, count=1):
    def f(files):
        t = files[path]
        if t.count(old) != count:
            raise RuntimeError('mutant does not apply: %r occurs %d times in %s' % (old[:60], t.count(old), path))
        files[path] = t.replace(old, new)
    return f


def in_func(path, name, fn):
    """apply fn(text of the function) to `def name(...)` up to the next top-level def/class"""
    def f(files):
        t = files[path]
        m = re.search(r'^([ \t]*)def %s\(.*?(?=^\1(?:def|class) |\Z)' % re.escape(name), t, re.S | re.M)
        if not m:
            raise RuntimeError('no function %s' % name)
        body = fn(m.group(0))
        if body == m.group(0):
            raise RuntimeError('mutant does not change %s' % name)
        files[path] = t[:m.start()] + body + t[m.end():]
    return f


def seq(*fs):
    def f(files):
        for g in fs:
            g(files)
    return f


def rename(name_old, name_new):
    return lambda s: re.sub(r'\b%s\b' % re.escape(name_old), name_new, s)


def swap_blocks(path, a, b):
    """swap two disjoint text blocks a, b (a before b)"""
    def f(files):
        t = files[path]
        if t.count(a) != 1 or t.count(b) != 1 or t.index(a) > t.index(b):
            raise RuntimeError('blocks to swap not found once, in order')
        i, j = t.index(a), t.index(b)
        files[path] = t[:i] + b + t[i + len(a):j] + a + t[j + len(b):]
    return f


SERV = '''    if config.serviceable and uh.isServiceable():
        if config.only and config.severities and not considerPELIfSeverityMatches(uh, config):
            """
            Only consider matched serviceable severities PELs;
            disregard the rest.
            """
            return False
        return True
'''
NONSERV = '''    if config.non_serviceable and not uh.isServiceable():
        if config.only and config.severities and not considerPELIfSeverityMatches(uh, config):
            """
            Only consider matched non-serviceable severities PELs;
            disregard the rest.
            """
            return False
        return True
'''
HIDDEN = '''    if config.hidden and uh.isHidden():
        if config.only and config.severities and not considerPELIfSeverityMatches(uh, config):
            """
            Only consider matched hidden severities PELs;
            disregard the rest.
            """
            return False
        return True
'''
SEVS = '''    if config.severities and considerPELIfSeverityMatches(uh, config):
        if config.only and (config.serviceable or
                            config.non_serviceable or
                            config.hidden):
            """
            Only consider matched severities PELs if no serviceable,
            non-serviceable, or hidden PELs are expected.
            """
            return False
        return True
'''
LIST = '''    if args.list:
        listOption(PELsPath, config)
        sys.exit(0)
'''
COUNT = '''    if args.show_pel_count:
        printPELCount(PELsPath, config)
        sys.exit(0)
'''
HEXB = '''    if args.hex:
        config.hex = True
'''
REVB = '''    if args.reverse:
        config.rev = True
'''

C, P = 'change', 'preserve'
MUTANTS = [
    # ---------------- behaviour-changing ----------------
    ('ph-width', C, sub(PT, 'sectionLen = stream.get_int(2)', 'sectionLen = stream.get_int(4)')),
    ('ph-return-swapped', C, sub(PT, 'return sectionID, sectionLen, versionID, subType, componentID',
                                 'return sectionID, sectionLen, subType, versionID, componentID')),
    ('ph-reads-swapped', C, sub(PT, '    versionID = stream.get_int(1)\n    subType = stream.get_int(1)\n',
                                '    subType = stream.get_int(1)\n    versionID = stream.get_int(1)\n')),
    ('ph-read-dropped', C, sub(PT, '    subType = stream.get_int(1)\n    componentID', '    subType = 0\n    componentID')),
    ('name-shift', C, sub(PT, 'chr((sectionID >> 8) & 0xFF)', 'chr((sectionID >> 4) & 0xFF)')),
    ('name-mask', C, sub(PT, '+ chr(sectionID & 0xFF)', '+ chr(sectionID & 0x7F)')),
    ('name-default', C, sub(PT, "sectionNames.get(id, 'Unknown')", "sectionNames.get(id, 'Unknown section')")),
    ('name-bytes-swapped', C, sub(PT, 'chr((sectionID >> 8) & 0xFF) + chr(sectionID & 0xFF)',
                                  'chr(sectionID & 0xFF) + chr((sectionID >> 8) & 0xFF)')),
    ('hidden-flag', C, sub(UH, 'return self.actionFlags & ActionFlagsValues.hiddenActionFlag.value',
                           'return self.actionFlags & ActionFlagsValues.reportFlag.value')),
    ('serv-comparison', C, sub(UH, 'if self.eventSeverity != SeverityValues.infoSeverity.value:',
                               'if self.eventSeverity == SeverityValues.infoSeverity.value:')),
    ('serv-hidden-negation', C, sub(UH, 'if not self.isHidden():', 'if self.isHidden():')),
    ('serv-info-flag', C, sub(UH, 'elif self.actionFlags & ActionFlagsValues.serviceActionFlag.value:',
                              'elif self.actionFlags & ActionFlagsValues.reportFlag.value:')),
    ('serv-hidden-test-dropped', C, sub(UH, '                if not self.isHidden():\n                    return True\n',
                                        '                return True\n')),
    ('sev-shift', C, sub(PT, 'if (uh.eventSeverity >> 4) == sev:', 'if (uh.eventSeverity >> 5) == sev:')),
    ('sev-comparison', C, sub(PT, 'if (uh.eventSeverity >> 4) == sev:', 'if (uh.eventSeverity >> 4) >= sev:')),
    ('sev-mask-instead', C, sub(PT, 'if (uh.eventSeverity >> 4) == sev:', 'if (uh.eventSeverity & 0xF0) == sev:')),
    ('consider-branches-reordered', C, swap_blocks(PT, HIDDEN, SEVS)),
    ('consider-exclude-dropped', C, sub(PT, 'if config.plid or config.src or config.srcExcludeFile or \\\n                config.bmcID or config.pelID:',
                                        'if config.plid or config.src or \\\n                config.bmcID or config.pelID:')),
    ('consider-only-dropped', C, sub(PT, HIDDEN, HIDDEN.replace('if config.only and config.severities and not', 'if config.severities and not'))),
    ('consider-or-to-and', C, sub(PT, 'if config.only or uh.isHidden() or not uh.isServiceable():',
                                  'if config.only and uh.isHidden() or not uh.isServiceable():')),
    ('consider-term-comparison', C, sub(PT, 'uh.eventSeverity == SeverityValues.critSysTermSeverity.value',
                                        'uh.eventSeverity != SeverityValues.critSysTermSeverity.value')),
    ('consider-term-constant', C, sub(PT, 'uh.eventSeverity == SeverityValues.critSysTermSeverity.value',
                                      'uh.eventSeverity == SeverityValues.infoSeverity.value')),
    ('consider-last-return', C, sub(PT, '            return True\n        return False\n\n    return True\n',
                                    '            return True\n        return False\n\n    return False\n')),
    ('consider-statement-dropped', C, sub(PT, '    if config.every_pel:\n        return True\n\n', '')),
    ('pid-length', C, sub(PT, 'DEFAULT_ID_LENGTH = 8', 'DEFAULT_ID_LENGTH = 10')),
    ('pid-prefix-text', C, sub(PT, 'if pid.startswith("0X"):', 'if pid.startswith("0x"):')),
    ('pid-slice', C, sub(PT, 'pid = pid[2:]', 'pid = pid[1:]')),
    ('pid-upper-dropped', C, sub(PT, '    pid = pid.upper()\n', '')),
    ('pid-comparison', C, sub(PT, 'if len(pid) != DEFAULT_ID_LENGTH:', 'if len(pid) < DEFAULT_ID_LENGTH:')),
    ('pid-exit-dropped', C, sub(PT, '        sys.exit("Invalid length of ID is provided!")\n', '        pid = pid[0:]\n')),
    ('cfg-value', C, sub(PT, 'config.allow_plugins = False', 'config.allow_plugins = True')),
    ('cfg-wrong-member', C, sub(PT, '    if args.hidden:\n        config.hidden = True', '    if args.hidden:\n        config.non_serviceable = True')),
    ('cfg-wrong-test', C, sub(PT, '    if args.reverse:\n        config.rev = True', '    if args.hex:\n        config.rev = True')),
    ('cfg-statement-dropped', C, sub(PT, '    if args.only:\n        config.only = True\n\n', '')),
    ('cfg-extension-unconditional', C, sub(PT, '    if args.extension:\n        config.extension = args.extension', '    config.extension = args.extension')),
    ('cfg-severities-replaced', C, sub(PT, 'config.severities.extend(severityGroupValues[sev] for sev in args.severities)',
                                       'config.severities = [severityGroupValues[sev] for sev in args.severities][:1]')),
    ('init-default', C, sub(CF, 'self.serviceable = False', 'self.serviceable = True')),
    ('init-id-default', C, sub(CF, 'self.pelID = None', 'self.pelID = "0"')),
    ('main-message', C, sub(PT, 'sys.exit(f"{args.path} is not a valid directory")', 'sys.exit(f"{args.path} is not a directory")')),
    ('main-message-dot', C, sub(PT, 'using the -p option.")', 'using the -p option")')),
    ('main-message-arg', C, sub(PT, 'sys.exit(f"Output directory {args.output_dir} doesn\'t exist")', 'sys.exit(f"Output directory {args.path} doesn\'t exist")')),
    ('main-priority-swapped', C, swap_blocks(PT, LIST, COUNT)),
    ('main-clean-without-printed', C, sub(PT, 'if args.clean and printed:', 'if args.clean:')),
    ('main-printed-without-clean', C, sub(PT, 'if args.clean and printed:', 'if printed:')),
    ('main-remove-other-file', C, sub(PT, '            os.remove(args.file)\n        sys.exit(0)', '            os.remove(args.path)\n        sys.exit(0)')),
    ('main-wrong-callee', C, sub(PT, '        parsePelFromID(PELsPath, config)', '        parsePelFromBmcID(PELsPath, config)')),
    ('main-exclude-stored-late', C, sub(PT, "        config.srcExcludeFile = args.src_exclude_file\n        if not os.path.isfile(config.srcExcludeFile):\n            sys.exit(f\"Input {config.srcExcludeFile} file doesn't exist!\")\n",
                                        "        if not os.path.isfile(args.src_exclude_file):\n            sys.exit(f\"Input {args.src_exclude_file} file doesn't exist!\")\n        config.srcExcludeFile = args.src_exclude_file\n")),
    ('main-isdir-to-isfile', C, sub(PT, 'if not os.path.isdir(args.path):', 'if not os.path.isfile(args.path):')),
    ('main-output-dir-ignored', C, sub(PT, '            output_dir = args.output_dir\n', '')),
    ('main-json-filter-comparison', C, sub(PT, '                if config.extension and config.extension != os.path.splitext(file)[1]:\n                    continue\n                parseAndWriteOutput',
                                           '                if config.extension and config.extension == os.path.splitext(file)[1]:\n                    continue\n                parseAndWriteOutput')),
    ('main-json-filter-dropped', C, sub(PT, '                if config.extension and config.extension != os.path.splitext(file)[1]:\n                    continue\n                parseAndWriteOutput',
                                        '                parseAndWriteOutput')),
    ('main-json-clean-constant', C, sub(PT, '                    root, file), output_dir, config,\n                    args.clean)', '                    root, file), output_dir, config,\n                    False)')),
    ('main-json-input-as-output', C, sub(PT, '                    root, file), output_dir, config,', '                    root, file), PELsPath, config,')),
    ('main-json-walk-deep', C, sub(PT, '                    args.clean)\n            # Only process top level directory\n            break\n', '                    args.clean)\n')),
    ('main-delete-other-id', C, sub(PT, 'deletePELFromPELId(PELsPath, args.IDToDelete)', 'deletePELFromPELId(PELsPath, args.pelID)')),
    ('main-exit-dropped', C, sub(PT, '        listOption(PELsPath, config)\n        sys.exit(0)\n', '        listOption(PELsPath, config)\n')),
    ('main-test-negated', C, sub(PT, '    if args.deleteAll:\n', '    if not args.deleteAll:\n')),
    ('main-lookup-not-stored', C, sub(PT, '        config.plid = args.plID\n', '')),
    ('main-lookup-wrong-member', C, sub(PT, '        config.plid = args.plID\n', '        config.src = args.plID\n')),
    ('main-exit-status', C, sub(PT, '        deleteAllPELs(PELsPath)\n        sys.exit(0)', '        deleteAllPELs(PELsPath)\n        sys.exit(1)')),
    ('main-file-after-path-check', C, swap_blocks(PT, '''    if args.file:
        printed = parseAndPrintPELFile(args.file, config, True)
        if args.clean and printed:
            os.remove(args.file)
        sys.exit(0)

''', '''    if not inBMC:
        if not args.path:
            sys.exit("Outside the BMC environment, please provide the path to the PELs using the -p option.")
        if not os.path.isdir(args.path):
            sys.exit(f"{args.path} is not a valid directory")
        PELsPath = args.path
    else:
        # peltool -A/--archive is specific to BMC only.
        if args.archive:
            PELsPath = PELsArchivePath

''')),
    ('main-option-kind', C, sub(PT, "jsonPELsData.add_argument('-c', '--clean', dest='clean', action='store_true',", "jsonPELsData.add_argument('-c', '--clean', dest='clean',")),
    ('main-exit-on-error-false', C, sub(PT, 'printed = parseAndPrintPELFile(args.file, config, True)', 'printed = parseAndPrintPELFile(args.file, config, False)')),
    ('module-table-rebound', C, sub(PT, 'from pel.hexdump import hexdump\n', "from pel.hexdump import hexdump\nsectionNames = {'PH': 'Private Header'}\n")),
    ('module-function-redefined', C, sub(PT, "\n\nif __name__ == '__main__':", "\n\ndef considerPEL(uh, config):\n    return True\n\n\nif __name__ == '__main__':")),
    ('module-method-replaced', C, sub(UH, '    def toJSON(self) -> OrderedDict:', '    isHidden = lambda self: 0\n\n    def toJSON(self) -> OrderedDict:')),
    ('cfg-computed-from-config', C, sub(PT, '    args = parser.parse_args()\n\n    config = Config()\n', '    args = parser.parse_args()\n\n    config = Config()\n    config.hex = not config.hex\n')),
    # ---------------- behaviour-preserving ----------------
    ('p-ph-locals-renamed', P, in_func(PT, 'parseHeader', lambda s: rename('sectionID', 'sid')(rename('componentID', 'comp')(rename('stream', 'ds')(s))))),
    ('p-ph-docstring-hints', P, sub(PT, 'def parseHeader(stream: DataStream):\n    sectionID = stream.get_int(2)',
                                    'def parseHeader(stream: "DataStream") -> tuple:\n    """reads the eight-byte section header"""\n    # id first\n    sectionID: int = stream.get_int(2)')),
    ('p-name-decimal-mask-renamed', P, in_func(PT, 'getSectionName', lambda s: rename('id', 'key')(s.replace('0xFF', '255')))),
    ('p-name-div-mod', P, sub(PT, 'chr((sectionID >> 8) & 0xFF)', 'chr((sectionID // 256) & 0xFF)')),
    ('p-name-temporaries', P, sub(PT, "    id = chr((sectionID >> 8) & 0xFF) + chr(sectionID & 0xFF)\n",
                                  "    hi = chr((sectionID >> 8) & 0xFF)\n    lo = chr(sectionID & 0xFF)\n    id = hi + lo\n")),
    ('p-serv-explicit-nonzero', P, sub(UH, 'if self.actionFlags & ActionFlagsValues.reportFlag.value:',
                                       'if (self.actionFlags & ActionFlagsValues.reportFlag.value) != 0:')),
    ('p-serv-else-if', P, sub(UH, '        elif self.actionFlags & ActionFlagsValues.serviceActionFlag.value:\n            return True\n',
                              '        else:\n            if self.actionFlags & ActionFlagsValues.serviceActionFlag.value:\n                return True\n')),
    ('p-serv-and', P, sub(UH, '            if self.actionFlags & ActionFlagsValues.reportFlag.value:\n                if not self.isHidden():\n                    return True\n',
                          '            if self.actionFlags & ActionFlagsValues.reportFlag.value and not self.isHidden():\n                return True\n')),
    ('p-hidden-operands-swapped', P, sub(UH, 'return self.actionFlags & ActionFlagsValues.hiddenActionFlag.value',
                                         'return ActionFlagsValues.hiddenActionFlag.value & self.actionFlags')),
    ('p-field-renamed', P, seq(lambda f: f.__setitem__(UH, rename('eventSeverity', 'evSeverity')(f[UH])),
                               lambda f: f.__setitem__(PT, rename('eventSeverity', 'evSeverity')(f[PT])))),
    ('p-sev-operands-swapped', P, sub(PT, 'if (uh.eventSeverity >> 4) == sev:', 'if sev == (uh.eventSeverity >> 4):')),
    ('p-sev-loop-var-renamed', P, in_func(PT, 'considerPELIfSeverityMatches', rename('sev', 'group'))),
    ('p-consider-exclusive-branches-swapped', P, swap_blocks(PT, SERV, NONSERV)),
    ('p-consider-disjuncts-reordered', P, sub(PT, 'if config.plid or config.src or config.srcExcludeFile or \\\n                config.bmcID or config.pelID:',
                                              'if config.pelID or config.bmcID or config.srcExcludeFile or \\\n                config.src or config.plid:')),
    ('p-consider-params-renamed', P, in_func(PT, 'considerPEL', lambda s: rename('uh', 'header')(rename('config', 'cfg')(s)))),
    ('p-consider-comments', P, sub(PT, '    if config.every_pel:\n        return True\n', '    # -E wins\n    if config.every_pel:\n        """every PEL"""\n        return True  # done\n')),
    ('p-consider-else-chain', P, sub(PT, '            return True\n        return False\n\n    return True\n', '            return True\n        else:\n            return False\n    else:\n        return True\n')),
    ('p-pid-not-equal', P, sub(PT, 'if len(pid) != DEFAULT_ID_LENGTH:', 'if not len(pid) == DEFAULT_ID_LENGTH:')),
    ('p-pid-locals-hint', P, in_func(PT, 'processId', lambda s: rename('DEFAULT_ID_LENGTH', 'WIDTH')(s).replace('WIDTH = 8', 'WIDTH: int = 8'))),
    ('p-pid-fresh-locals', P, sub(PT, '    pid = pid.upper()\n    if pid.startswith("0X"):\n        pid = pid[2:]\n    if len(pid) != DEFAULT_ID_LENGTH:\n        sys.exit("Invalid length of ID is provided!")\n    return pid',
                                  '    up = pid.upper()\n    body = up\n    if up.startswith("0X"):\n        body = up[2:]\n    if len(body) != DEFAULT_ID_LENGTH:\n        sys.exit("Invalid length of ID is provided!")\n    return body')),
    ('p-pid-return-both-ways', P, sub(PT, '    if len(pid) != DEFAULT_ID_LENGTH:\n        sys.exit("Invalid length of ID is provided!")\n    return pid',
                                      '    if len(pid) == DEFAULT_ID_LENGTH:\n        return pid\n    sys.exit("Invalid length of ID is provided!")')),
    ('p-cfg-statements-reordered', P, swap_blocks(PT, HEXB, REVB)),
    ('p-cfg-selection-reordered', P, swap_blocks(PT, '    if args.serviceable:\n        config.serviceable = True\n', '    if args.every_pel:\n        config.every_pel = True\n')),
    ('p-init-reordered', P, swap_blocks(CF, '        self.hex = False\n', '        self.only = False\n')),
    ('p-main-percent-format', P, sub(PT, 'sys.exit(f"{args.path} is not a valid directory")', 'sys.exit("%s is not a valid directory" % args.path)')),
    ('p-main-dot-format', P, sub(PT, 'sys.exit(f"Output directory {args.output_dir} doesn\'t exist")', 'sys.exit("Output directory {} doesn\'t exist".format(args.output_dir))')),
    ('p-main-concatenation', P, sub(PT, "sys.exit(f\"Input {config.srcExcludeFile} file doesn't exist!\")", "sys.exit(\"Input \" + config.srcExcludeFile + \" file doesn't exist!\")")),
    ('p-main-temporary', P, sub(PT, '    if args.pelID:\n        config.pelID = args.pelID\n', '    pel_id = args.pelID\n    if pel_id:\n        config.pelID = pel_id\n')),
    ('p-main-locals-renamed', P, in_func(PT, 'main', lambda s: rename('output_dir', 'outdir')(s).replace("dest='outdir'", "dest='output_dir'").replace('args.outdir', 'args.output_dir'))),
    ('p-main-last-exit-dropped', P, sub(PT, '        deleteAllPELs(PELsPath)\n        sys.exit(0)', '        deleteAllPELs(PELsPath)')),
    ('p-main-printed-first', P, sub(PT, 'if args.clean and printed:', 'if printed and args.clean:')),
    ('p-main-comments', P, sub(PT, '    if args.json:\n        output_dir = PELsPath\n', '    # batch conversion\n    if args.json:\n        """-j"""\n        output_dir = PELsPath  # default\n')),
    ('p-main-nested-path-tests', P, sub(PT, '        if not args.path:\n            sys.exit("Outside the BMC environment, please provide the path to the PELs using the -p option.")\n        if not os.path.isdir(args.path):\n            sys.exit(f"{args.path} is not a valid directory")\n',
                                        '        if args.path:\n            if not os.path.isdir(args.path):\n                sys.exit(f"{args.path} is not a valid directory")\n        else:\n            sys.exit("Outside the BMC environment, please provide the path to the PELs using the -p option.")\n')),
    ('p-main-inbmc-positive', P, sub(PT, '''    if not inBMC:
        if not args.path:
            sys.exit("Outside the BMC environment, please provide the path to the PELs using the -p option.")
        if not os.path.isdir(args.path):
            sys.exit(f"{args.path} is not a valid directory")
        PELsPath = args.path
    else:
        # peltool -A/--archive is specific to BMC only.
        if args.archive:
            PELsPath = PELsArchivePath
''', '''    if inBMC:
        # peltool -A/--archive is specific to BMC only.
        if args.archive:
            PELsPath = PELsArchivePath
    else:
        if not args.path:
            sys.exit("Outside the BMC environment, please provide the path to the PELs using the -p option.")
        if not os.path.isdir(args.path):
            sys.exit(f"{args.path} is not a valid directory")
        PELsPath = args.path
''')),
]


def run(cmd, cwd=None, env=None):
    r = subprocess.run(cmd, cwd=cwd, env=env, stdout=subprocess.PIPE, stderr=subprocess.STDOUT, text=True)
    return r.returncode, r.stdout


def restore():
    run(['git', 'checkout', '--', '.'], cwd=REPO)


def evaluate():
    env = dict(os.environ, VERIF_REPO=REPO)
    rc, out = run(['/venv/bin/python', os.path.join(VERIF, 'harness', 'extract.py')], cwd=VERIF, env=env)
    if rc != 0:
        return 'EXTRACT-FAILED', [out[-300:]], []
    una = [l.split(' ', 1)[1] for l in out.split('\n') if l.startswith('TRANSLATION-UNAVAILABLE ')]
    rc, out = run(['lake', 'build'] + ['PelProps.' + t for t in TIES], cwd=os.path.join(VERIF, 'lean'))
    broken = []
    if rc != 0:
        broken = sorted(set(re.findall(r'^- PelProps\.(Tie\w+)', out, re.M)))
        if not broken:
            broken = ['build failed: ' + out[-300:]]
    verdict = 'BROKEN' if broken else ('UNAVAILABLE' if una else 'PROVED')
    return verdict, una, broken


def main():
    sel = sys.argv[1:]
    rc, out = run(['git', 'status', '--porcelain'], cwd=REPO)
    if out.strip():
        sys.exit('the worktree %s is not clean:\n%s' % (REPO, out))
    rows = []
    try:
        v, una, broken = evaluate()
        rows.append(('(unchanged tree)', '-', v, una, broken, 0.0))
        print('%-42s %-9s %-12s %s %s' % rows[-1][:5], flush=True)
        for name, kind, mut in MUTANTS:
            if sel and not any(x in name for x in sel):
                continue
            files = {p: open(os.path.join(REPO, p), encoding='utf-8').read() for p in (PT, UH, CF)}
            before = dict(files)
            t0 = time.time()
            try:
                mut(files)
                for p in files:
                    if files[p] != before[p]:
                        with open(os.path.join(REPO, p), 'w', encoding='utf-8') as f:
                            f.write(files[p])
                # a mutant must at least be valid Python
                for p in files:
                    compile(files[p], p, 'exec')
                v, una, broken = evaluate()
            except (RuntimeError, SyntaxError) as e:
                v, una, broken = 'MUTANT-ERROR', [str(e)], []
            finally:
                restore()
            rows.append((name, kind, v, una, broken, time.time() - t0))
            print('%-42s %-9s %-12s %s %s' % (name, kind, v, '; '.join(u.split(' ')[0] + ' ' + u.split(' ', 1)[1][:70] for u in una), ' '.join(broken)), flush=True)
    finally:
        restore()
        evaluate()
    print()
    print('| mutant | kind | verdict | not translated (`none`) | tie modules broken |')
    print('|---|---|---|---|---|')
    for name, kind, v, una, broken, _ in rows:
        print('| %s | %s | %s | %s | %s |' % (name, kind, v, ', '.join(u.split(' ')[0] for u in una) or '-', ' '.join(broken) or '-'))
    bad = [r for r in rows if r[1] == C and r[2] == 'PROVED']
    errs = [r for r in rows if r[2] in ('MUTANT-ERROR', 'EXTRACT-FAILED')]
    pres = [r for r in rows if r[1] == P]
    print()
    print('behaviour-changing mutants: %d, of which PROVED (must be 0): %d' % (len([r for r in rows if r[1] == C]), len(bad)))
    print('behaviour-preserving rewrites: %d — PROVED %d, UNAVAILABLE %d, BROKEN %d' % (
        len(pres), len([r for r in pres if r[2] == 'PROVED']), len([r for r in pres if r[2] == 'UNAVAILABLE']),
        len([r for r in pres if r[2] == 'BROKEN'])))
    if errs:
        print('mutants that did not apply: ' + ', '.join(r[0] for r in errs))
    ok = not bad and not errs and rows[0][2] == 'PROVED'
    print('SELF-TEST ' + ('OK' if ok else 'FAILED'))
    return 0 if ok else 1


if __name__ == '__main__':
    sys.exit(main())
