#!/venv/bin/python
"""
Self-test of the source tie of the SRC section (harness/trans_src.py, lean/PelProps/TieC03.lean).

Applies source MUTANTS one at a time to the repository worktree named by VERIF_REPO (never /repo), regenerates
lean/PelGen/GenSrc.lean with harness/extract.py, builds PelProps.TieC03 and prints a table

    mutant | kind | translated? | tie proved? | verdict

kind B = behaviour-changing (expected: tie BROKEN or translation UNAVAILABLE, never proved),
kind P = behaviour-preserving (ideally still proved, UNAVAILABLE acceptable, BROKEN reported).
The worktree is always restored (`git checkout -- .`) and the generated file regenerated from the clean tree.

    VERIF_REPO=/tmp/work/T4/repo tools/transtest_src.py [-k substring] [--keep-going]
"""
import os
import re
import subprocess
import sys

VERIF = os.path.dirname(os.path.dirname(os.path.abspath(__file__)))
REPO = os.environ.get('VERIF_REPO')
if not REPO or os.path.realpath(REPO) == '/repo':
    sys.exit('set VERIF_REPO to a scratch worktree (never /repo)')
PY = '/venv/bin/python'
LEAN = os.path.join(VERIF, 'lean')
PT = 'modules/pel/peltool/'

SRC = PT + 'src.py'
TYPES = PT + 'pel_types.py'


def rep(old, new, count=1):
    def f(text):
        if text.count(old) != count:
            raise RuntimeError('pattern %r occurs %d times, expected %d' % (old, text.count(old), count))
        return text.replace(old, new)
    return f


def rex(pat, new, count=None):
    def f(text):
        out, n = re.subn(pat, new, text)
        if n == 0 or (count is not None and n != count):
            raise RuntimeError('pattern %r matched %d times' % (pat, n))
        return out
    return f


def seq(*fs):
    def f(text):
        for g in fs:
            text = g(text)
        return text
    return f


def region(start, end, f):
    """apply f between the first occurrence of `start` and the next occurrence of `end`"""
    def g(text):
        i = text.index(start)
        j = text.index(end, i)
        return text[:i] + f(text[i:j]) + text[j:]
    return g


def nth(old, new, k):
    """replace the k-th (0-based) occurrence"""
    def f(text):
        parts = text.split(old)
        if len(parts) <= k + 1:
            raise RuntimeError('pattern %r has no occurrence %d' % (old, k))
        return old.join(parts[:k + 1]) + new + old.join(parts[k + 1:])
    return f


# (id, kind, function(s) concerned, file, edit, description)
FRU, PCE, MRUF, CO, FS, CJ, DC, DS = 'readFru', 'readPce', 'readMru', 'readCallout', 'calloutFlattenedSize', 'calloutJson', 'decodeCallouts', 'decodeSRC'
MUTANTS = [
    # ---------------- behaviour-changing
    ('B01', 'B', FRU, SRC, nth('self.size = stream.get_int(1)', 'self.size = stream.get_int(2)', 0), 'FRU: size byte read with width 2'),
    ('B02', 'B', FRU + ',' + CJ, SRC, rep('ccinSupplied = 0x04', 'ccinSupplied = 0x10'), 'Flags.ccinSupplied mask changed in the Enum'),
    ('B03', 'B', FRU, SRC, seq(rep('self.ccin = bytes.decode(stream.get_mem(4))', 'self.TMP = bytes.decode(stream.get_mem(4))'),
                               rep('self.sn = bytes.decode(stream.get_mem(12))', 'self.ccin = bytes.decode(stream.get_mem(12))'),
                               rep('self.TMP = bytes.decode(stream.get_mem(4))', 'self.sn = bytes.decode(stream.get_mem(4))')), 'FRU: CCIN and serial number stored in each other\'s attribute'),
    ('B04', 'B', FRU, SRC, rep('stream.get_mem(8)).strip("\\u0000")\n            self.flattenedSize += 8', 'stream.get_mem(12)).strip("\\u0000")\n            self.flattenedSize += 8'), 'FRU: part number read with width 12'),
    ('B05', 'B', FRU, SRC, rep('self.flattenedSize += 8', 'self.flattenedSize += 4'), 'FRU: size accounting of the part number'),
    ('B06', 'B', FRU, SRC, rep('self.sn = bytes.decode(stream.get_mem(12)).strip("\\u0000")', 'self.sn = bytes.decode(stream.get_mem(12)).rstrip("\\u0000")'), 'FRU: serial number only stripped on the right'),
    ('B07', 'B', FRU, SRC, rep('if self.flags & Flags.pnSupplied.value or self.flags', 'if self.flags & Flags.pnSupplied.value and self.flags'), 'FRU: or -> and'),
    ('B08', 'B', FRU, SRC, seq(rep('        if self.flags & Flags.ccinSupplied.value:\n            self.ccin = bytes.decode(stream.get_mem(4)).strip("\\u0000")\n            self.flattenedSize += 4\n\n', ''),
                               rep('            self.flattenedSize += 12\n', '            self.flattenedSize += 12\n\n        if self.flags & Flags.ccinSupplied.value:\n            self.ccin = bytes.decode(stream.get_mem(4)).strip("\\u0000")\n            self.flattenedSize += 4\n')),
     'FRU: CCIN read after the serial number (statements reordered)'),
    ('B09', 'B', PCE, SRC, rep('if self.flattenedSize < (4 + 8 + 12):', 'if self.flattenedSize <= (4 + 8 + 12):'), 'PCE: comparison of the size test'),
    ('B10', 'B', PCE, SRC, rep('self.pceNameSize = self.flattenedSize - (4 + 8 + 12)', 'self.pceNameSize = self.flattenedSize - (4 + 8 + 8)'), 'PCE: name length'),
    ('B11', 'B', PCE, SRC, rep('                  file=sys.stderr)\n            return\n', '                  file=sys.stderr)\n'), 'PCE: early return dropped'),
    ('B12', 'B', PCE, SRC, seq(rep('self.machineType = bytes.decode(stream.get_mem(8))', 'self.machineType = bytes.decode(stream.get_mem(12))'),
                               rep('self.serialNumber = bytes.decode(\n            stream.get_mem(12))', 'self.serialNumber = bytes.decode(\n            stream.get_mem(8))')), 'PCE: widths of type and serial number exchanged'),
    ('B13', 'B', PCE, SRC, nth('self.flattenedSize = stream.get_int(1)\n        self.flags = stream.get_int(1)', 'self.flags = stream.get_int(1)\n        self.flattenedSize = stream.get_int(1)', 0), 'PCE: size and flags bytes exchanged'),
    ('B14', 'B', MRUF, SRC, rep('range(self.flags & 0xf)', 'range(self.flags & 0x7)'), 'MRU: count mask'),
    ('B15', 'B', MRUF, SRC, rep('        self.priority = priority\n        self.id = id', '        self.priority = id\n        self.id = priority'), 'MRUCallout: fields exchanged'),
    ('B16', 'B', MRUF, SRC, rep('        self.reserved4B = stream.get_int(4)\n', ''), 'MRU: reserved word no longer skipped'),
    ('B17', 'B', MRUF, SRC, rep('MRUCallout(stream.get_int(4), stream.get_int(4))', 'MRUCallout(stream.get_int(4), stream.get_int(2))'), 'MRU: id read with width 2'),
    ('B18', 'B', MRUF, SRC, rep('            self.mrus.append(mru)\n', '            self.mrus.append(mru)\n            self.mrus.append(mru)\n'), 'MRU: every item appended twice'),
    ('B19', 'B', CO, SRC, rep('if self.locationCodeSize > 0:', 'if self.locationCodeSize > 1:'), 'Callout: location code test'),
    ('B20', 'B', CO, SRC, rep('currentSize = 4 + self.locationCodeSize', 'currentSize = self.locationCodeSize'), 'Callout: initial size accounting'),
    ('B21', 'B', CO, SRC, rep('if type == 0x4944:', 'if type == 0x4945:'), 'Callout: FRU identity type constant'),
    ('B22', 'B', CO, SRC, rep('while self.size > currentSize:', 'while self.size >= currentSize:'), 'Callout: loop condition'),
    ('B23', 'B', CO, SRC, rep('            else:\n                break\n', '            else:\n                currentSize += 1\n'), 'Callout: unknown substructure no longer ends the walk'),
    ('B24', 'B', CO, SRC, rep('get_value(stream.data, stream.index, 2)', 'get_value(stream.data, stream.index, 1)'), 'Callout: substructure type looked at as one byte'),
    ('B25', 'B', CO, SRC, rep('byteorder="big"', 'byteorder="little"'), 'get_value: byte order'),
    ('B26', 'B', CO, SRC, nth('        self.flags = stream.get_int(1)\n        self.priority = stream.get_int(1)', '        self.priority = stream.get_int(1)\n        self.flags = stream.get_int(1)', 0), 'Callout: flags and priority bytes exchanged'),
    ('B27', 'B', CO, SRC, rep('currentSize += self.pceIdentity.flattenedSize', 'currentSize += 24'), 'Callout: PCE size accounting by a constant'),
    ('B28', 'B', CO, SRC, rep('self.mru = MRU(stream)', 'self.mru = PCEIdentity(stream)'), 'Callout: MRU substructure read with the PCE reader'),
    ('B29', 'B', CO, SRC, rep('                self.fruIdentity = FRUIdentity(stream)\n                currentSize += self.fruIdentity.flattenedSize', '                currentSize += 4'), 'Callout: FRU identity not read (loop continues without reading)'),
    ('B30', 'B', FS, SRC, rep('size = 4 + self.locationCodeSize', 'size = self.locationCodeSize'), 'flattenedSize: header not counted'),
    ('B31', 'B', FS, SRC, rep('size += self.mru.flattenedSize if self.mru else 0', 'size += self.mru.flattenedSize if self.mru else 4'), 'flattenedSize: default of a missing MRU'),
    ('B32', 'B', FS, SRC, rep('        size += self.pceIdentity.flattenedSize if self.pceIdentity else 0\n', ''), 'flattenedSize: PCE not counted (statement dropped)'),
    ('B33', 'B', CJ, SRC, rep('callout.fruIdentity.flags & 0xf0', 'callout.fruIdentity.flags & 0x0f'), 'callout: FRU type mask'),
    ('B34', 'B', CJ, SRC, rep("callout.priority, 'Invalid')", "callout.priority, 'Unknown')"), 'callout: default of the priority look-up'),
    ('B35', 'B', CJ, SRC, rep('json["Part Number"]', 'json["Part number"]'), 'callout: member name'),
    ('B36', 'B', CJ, SRC, rep('calloutPriorityValues.get(\n                    callout.priority', 'failingComponentType.get(\n                    callout.priority'), 'callout: priority looked up in another table'),
    ('B37', 'B', CJ, SRC, seq(rep('                if callout.fruIdentity.flags & Flags.ccinSupplied.value:\n                    json["CCIN"] = callout.fruIdentity.ccin\n', ''),
                              rep('                    json["Serial Number"] = callout.fruIdentity.sn\n', '                    json["Serial Number"] = callout.fruIdentity.sn\n                if callout.fruIdentity.flags & Flags.ccinSupplied.value:\n                    json["CCIN"] = callout.fruIdentity.ccin\n')),
     'callout: order of two members'),
    ('B38', 'B', CJ, SRC, rep('"%08X" % mru.id', '"%08x" % mru.id'), 'callout: MRU ids in lower case'),
    ('B39', 'B', CJ, SRC, rep('json["MRU Id"] = mruId[:-1]', 'json["MRU Id"] = mruId'), 'callout: trailing comma kept'),
    ('B40', 'B', CJ, SRC, rep('"_" + callout.pceIdentity.serialNumber', '"-" + callout.pceIdentity.serialNumber'), 'callout: separator of the PCE MTMS'),
    ('B41', 'B', CJ, SRC, rep('                    if config.allow_plugins:\n                        self.getProcedureDesc(json["Procedure"], json)', '                    self.getProcedureDesc(json["Procedure"], json)'), 'callout: procedure description without the plug-in switch'),
    ('B42', 'B', CJ, SRC, rep('if len(callout.locationCode) > 0:', 'if len(callout.locationCode) > 1:'), 'callout: location code test'),
    ('B43', 'B', CJ, SRC, rep('json["Part Number"] = callout.fruIdentity.pnOrProcedureID', 'json["Part Number"] = callout.fruIdentity.ccin'), 'callout: part number shows another field'),
    ('B44', 'B', CJ, SRC, rep('if callout.fruIdentity.flags & Flags.maintProcSupplied.value:', 'if callout.fruIdentity.flags & Flags.pnSupplied.value:', 1), 'callout: procedure shown under the part-number flag'),
    ('B45', 'B', CJ, SRC, rep('                if len(callout.pceIdentity.pceName):', '                if len(callout.pceIdentity.machineType):'), 'callout: PCE name shown under another test (the unset attribute is read later)'),
    ('B46', 'B', DC, SRC, rep('while subsectionWordLength * 4 > currentLength:', 'while subsectionWordLength * 2 > currentLength:'), 'callouts: word length factor'),
    ('B47', 'B', DC, SRC, rep('currentLength = 4', 'currentLength = 0'), 'callouts: initial length'),
    ('B48', 'B', DC, SRC, rep('od["Callout Count"]', 'od["Callouts Count"]'), 'callouts: member name'),
    ('B49', 'B', DC, SRC, rep('        _ = self.stream.get_int(1)  # subsectionFlags\n', ''), 'callouts: flags byte no longer skipped'),
    ('B50', 'B', DC, SRC, rep('subsectionWordLength = self.stream.get_int(2)', 'subsectionWordLength = self.stream.get_int(4)'), 'callouts: word length read with width 4'),
    ('B51', 'B', DC, SRC, rep('currentLength += callout.flattenedSize()', 'currentLength += callout.size'), 'callouts: declared instead of flattened size'),
    ('B52', 'B', DC, SRC, rep('        od["Callouts"] = calloutJsons\n', '        od["Callouts"] = calloutJsons\n        od["Callout Count"] = 0\n'), 'callouts: a member assigned twice'),
    ('B53', 'B', DC + ',' + DS, SRC, rep('out["Callout Section"] = od', 'out["Callouts"] = od'), 'callouts: key under which the subsection is stored'),
    ('B54', 'B', DS, SRC, rep('self.hexData.append(self.stream.get_int(4))', 'self.hexData.append(self.stream.get_int(2))'), 'SRC: hex words read with width 2'),
    ('B55', 'B', DS, SRC, rep('for i in range(8):', 'for i in range(9):'), 'SRC: nine hex words'),
    ('B56', 'B', DS, SRC, rep('self.stream.get_mem(32)', 'self.stream.get_mem(16)'), 'SRC: ASCII string of 16 bytes'),
    ('B57', 'B', DS, SRC, rep('virtualProgressSRC = 0x80', 'virtualProgressSRC = 0x40'), 'HeaderFlags.virtualProgressSRC mask changed in the Enum'),
    ('B58', 'B', DS, SRC, rep('guarded = 0x01000000', 'guarded = 0x00100000'), 'ErrorStatusFlags.guarded mask changed in the Enum'),
    ('B59', 'B', DS, SRC, rep('self.hexData[1] >> 16', 'self.hexData[1] >> 8'), 'SRC: shift of the backplane CCIN'),
    ('B60', 'B', DS, SRC, rep('str("%04X" % (self.hexData[1] >> 16))', 'str("%08X" % (self.hexData[1] >> 16))'), 'SRC: format of the backplane CCIN'),
    ('B61', 'B', DS, SRC, rep('self.srcType == SRCType.powerError.value', 'self.srcType == SRCType.hostbootError.value'), 'SRC: BMC test uses another type'),
    ('B62', 'B', DS, TYPES, rep('bmcError = "BD"', 'bmcError = "BE"'), 'SRCType.bmcError changed in pel_types.py'),
    ('B63', 'B', DS, SRC, rep('        if is_bmc_src or is_hostboot_src:', '        if is_bmc_src:', 1), 'SRC: Deconfigured/Guarded only for BMC codes'),
    ('B64', 'B', DS, SRC, rep('self.asciiString[4:8], self.asciiString[0:2])', 'self.asciiString[4:6], self.asciiString[0:2])'), 'SRC: registry key slice'),
    ('B65', 'B', DS, SRC, rep('range(2, self.wordCount + 1)', 'range(2, self.wordCount)'), 'SRC: last hex word not shown'),
    ('B66', 'B', DS, SRC, rep('if num >= 2 and num <= 9:', 'if num >= 2 and num <= 8:'), 'SRC: index adjustment bound'),
    ('B67', 'B', DS, SRC, rep('tmpWord = "%08X" % self.hexData[num]', 'tmpWord = "%08x" % self.hexData[num]'), 'SRC: hex words in lower case'),
    ('B68', 'B', DS, SRC, rep('out["Hex Word " + str(i)]', 'out["Hex word " + str(i)]'), 'SRC: hex word member name'),
    ('B69', 'B', DS, SRC, rep('while len(hexwords) < 8:', 'while len(hexwords) < 9:'), 'SRC: nine words handed to the parser'),
    ('B70', 'B', DS, SRC, rep("hexwords.append('00000000')", "hexwords.append('0')"), 'SRC: padding word'),
    ('B71', 'B', DS, SRC, rep('if self.flags & HeaderFlags.additionalSections.value:', 'if self.flags & HeaderFlags.powerFaultEvent.value:'), 'SRC: callouts under another flag'),
    ('B72', 'B', DS, SRC, rep("if value != '' and value != 'null':", "if value != '' and value != 'None':"), 'SRC: parser result test'),
    ('B73', 'B', DS, SRC, rep('        out["Valid Word Count"] = "0x" + "%02X" % self.wordCount\n        out["Reference Code"] = self.asciiString.strip()\n',
                              '        out["Reference Code"] = self.asciiString.strip()\n        out["Valid Word Count"] = "0x" + "%02X" % self.wordCount\n'), 'SRC: order of two members'),
    ('B74', 'B', DS, SRC, rep('out["Reference Code"] = self.asciiString.strip()', 'out["Reference Code"] = self.asciiString.rstrip()'), 'SRC: reference code only stripped on the right'),
    ('B75', 'B', DS, SRC, rep('        self.reserved1B = self.stream.get_int(1)\n', ''), 'SRC: reserved byte no longer skipped'),
    ('B76', 'B', DS, SRC, rep('out["Error Details"] = od', 'out["Error details"] = od'), 'SRC: key of the registry details (in the callee)'),
    ('B77', 'B', DS, SRC, rep('out, self.asciiString[4:8], self.asciiString[0:2])', 'out, self.asciiString[0:2], self.asciiString[4:8])'), 'SRC: arguments of getErrorDetails exchanged'),
    ('B78', 'B', DS, SRC, rep('self.version = "0x" + self.stream.get_mem(1).hex()', 'self.version = "0X" + self.stream.get_mem(1).hex()'), 'SRC: version prefix'),
    ('B79', 'B', DS, SRC, rep('            tmpWord = "%08X" % self.hexData[num]\n', '            try:\n                tmpWord = "%08X" % self.hexData[num]\n            except IndexError:\n                tmpWord = ""\n'), 'SRC: IndexError caught (try/except)'),
    ('B80', 'B', DS, SRC, rep('        if config.allow_plugins:\n            value = self.parse(hexwords)', '        if not config.allow_plugins:\n            value = self.parse(hexwords)'), 'SRC: plug-in switch negated'),
    ('B81', 'B', DS, SRC, rep('self.hexData[0] & 0xFF)', 'self.hexData[0] & 0xFFFF)'), 'SRC: format mask'),
    ('B82', 'B', DS, SRC, rep('"True" if self.flags & HeaderFlags.hypDumpInit.value else "False"', '"False" if self.flags & HeaderFlags.hypDumpInit.value else "True"'), 'SRC: branches of a flag display exchanged'),
    ('B83', 'B', DS, SRC, rep('self.hexData[3] & ErrorStatusFlags.deconfigured.value', 'self.hexData[2] & ErrorStatusFlags.deconfigured.value'), 'SRC: Deconfigured taken from another word'),
    ('B84', 'B', DS, SRC, rep('            self.getErrorDetails(\n                out, self.asciiString[4:8], self.asciiString[0:2])\n', ''), 'SRC: registry look-up dropped'),
    ('B85', 'B', DS, SRC, rep('self.componentID = componentID', 'self.componentID = sectionID'), 'SRC: __init__ stores another header field as the component id'),
    ('B86', 'B', DS, SRC, rep('        self.hexData = []\n', '        self.hexData = [0]\n'), 'SRC: hexData starts non-empty'),
    ('B87', 'B', DS, SRC, lambda s: s + '\n\nSRC.toJSON = lambda self, config: OrderedDict()\n', 'SRC: method replaced after the class'),
    ('B88', 'B', DS, SRC, rep('value = self.parse(hexwords)', 'value = self.parse(hexwords[::-1])'), 'SRC: words handed to the parser reversed'),
    ('B89', 'B', FRU, SRC, rep('if self.flags & Flags.pnSupplied.value or self.flags & Flags.maintProcSupplied.value:', 'if (self.flags & Flags.pnSupplied.value or self.flags & Flags.maintProcSupplied.value) and self.size:'), 'FRU: (a or b) and c (grouping of mixed and/or)'),
    ('B90', 'B', FRU, SRC, rep('        self.flags = stream.get_int(1)\n        self.pnOrProcedureID = ""', '        self.flags = stream.get_int(1)\n        stream.inc_index(1)\n        self.pnOrProcedureID = ""'), 'FRU: a byte skipped with an unknown stream method'),
    ('B91', 'B', FRU, SRC, rep('        self.flattenedSize = 4\n\n        if self.flags & Flags.pnSupplied', '        self.flattenedSize = 0\n\n        if self.flags & Flags.pnSupplied'), 'FRU: initial flattened size'),
    ('B92', 'B', MRUF, SRC, nth('self.flattenedSize = stream.get_int(1)\n        self.flags = stream.get_int(1)', 'self.flags = stream.get_int(1)\n        self.flattenedSize = stream.get_int(1)', 1), 'MRU: size and flags bytes exchanged'),
    ('B93', 'B', DS, SRC, rep('out["Terminate FW Error"] = "True" if self.hexData[3]', 'out["Terminate FW Error"] = "True" if self.hexData[8]'), 'SRC: a literal index beyond the eight words (IndexError)'),
    ('B94', 'B', DS, SRC, rep('out["Hex Word " + str(i)] = tmpWord', 'out["Hex Word " + str(num)] = tmpWord'), 'SRC: hex word numbered by the adjusted index'),
    ('B95', 'B', DC + ',' + CJ, SRC, rep('for callout in callouts:', 'for callout in callouts[1:]:'), 'callouts: first callout not shown'),
    ('B96', 'B', DS, SRC, rep('        return out\n', '        return OrderedDict(reversed(list(out.items())))\n'), 'SRC: members returned in reverse order'),
    ('B97', 'B', DS, SRC, rep('        if config.allow_plugins:\n            value = self.parse(hexwords)', '        if config.hex:\n            value = self.parse(hexwords)'), 'SRC: parser under another Config member'),
    ('B98', 'B', CJ, SRC, rep('json["CCIN"] = callout.fruIdentity.ccin', 'json["CCIN"] = callout.fruIdentity.ccin.lower()'), 'callout: CCIN shown in lower case'),
    ('B99', 'B', DC, SRC, rep('            callouts.append(callout)\n            currentLength', '            callouts.insert(0, callout)\n            currentLength'), 'callouts: collected in reverse order'),
    # ---------------- behaviour-preserving
    ('P01', 'P', FRU, SRC, seq(nth('self.type = stream.get_int(2)\n        self.size = stream.get_int(1)', 'self._t = strm.get_int(2)\n        self.sz = strm.get_int(1)', 0),
                               lambda s: s.replace('class PCEIdentity', '@@CUT@@class PCEIdentity', 1),
                               lambda s: s.split('@@CUT@@')[0].replace('stream', 'strm').replace('strm: DataStream', 'strm: DataStream') + s.split('@@CUT@@')[1]),
     'FRU: private attributes and the parameter renamed'),
    ('P02', 'P', FRU, SRC, rep('if self.flags & Flags.ccinSupplied.value:\n            self.ccin', 'if (self.flags & Flags.ccinSupplied.value) != 0:\n            self.ccin'), 'FRU: explicit != 0'),
    ('P03', 'P', FRU, SRC, rep('self.ccin = bytes.decode(stream.get_mem(4)).strip("\\u0000")', 'raw = stream.get_mem(4)\n            text = bytes.decode(raw)\n            self.ccin = text.strip("\\u0000")'), 'FRU: temporaries extracted'),
    ('P04', 'P', FRU, SRC, rep('self.flattenedSize += 8', 'self.flattenedSize = self.flattenedSize + 8'), 'FRU: += written out'),
    ('P05', 'P', FRU, SRC, seq(rep('        self.ccin = ""\n        self.sn = ""\n', '        self.sn: str = ""  # serial number\n        self.ccin = ""\n'),
                               rep('class FRUIdentity:\n    def __init__(self, stream: DataStream):\n', 'class FRUIdentity:\n    """FRU identity substructure"""\n\n    def __init__(self, stream: DataStream) -> None:\n        """reads the substructure"""\n')),
     'FRU: independent statements reordered, docstrings, comments, type hints'),
    ('P06', 'P', FRU, SRC, rep('if self.flags & Flags.snSupplied.value:', 'if Flags.snSupplied.value & self.flags:'), 'FRU: operands of & exchanged'),
    ('P07', 'P', PCE, SRC, lambda s: s.replace('(4 + 8 + 12)', '24'), 'PCE: 4 + 8 + 12 written as 24'),
    ('P08', 'P', PCE, SRC, rep('            print("PCE identity structure size field too small",\n                  file=sys.stderr)\n            return\n        self.pceNameSize = self.flattenedSize - (4 + 8 + 12)\n        self.pceName = bytes.decode(\n            stream.get_mem(self.pceNameSize)).strip("\\u0000")',
                               '            print("PCE identity structure size field too small",\n                  file=sys.stderr)\n            return\n        self.pceName = bytes.decode(\n            stream.get_mem(self.flattenedSize - (4 + 8 + 12))).strip("\\u0000")'), 'PCE: name length temporary inlined'),
    ('P09', 'P', PCE, SRC, rep('if self.flattenedSize < (4 + 8 + 12):', 'if (4 + 8 + 12) > self.flattenedSize:'), 'PCE: comparison written the other way round'),
    ('P10', 'P', MRUF, SRC, rep('        for _ in range(self.flags & 0xf):\n            mru = MRUCallout(stream.get_int(4), stream.get_int(4))\n            self.mrus.append(mru)',
                                '        for k in range(self.flags & 15):\n            item = MRUCallout(stream.get_int(4), stream.get_int(4))\n            self.mrus.append(item)'), 'MRU: loop locals renamed, mask in decimal'),
    ('P11', 'P', MRUF, SRC, rep('            mru = MRUCallout(stream.get_int(4), stream.get_int(4))\n            self.mrus.append(mru)', '            prio = stream.get_int(4)\n            ident = stream.get_int(4)\n            self.mrus.append(MRUCallout(prio, ident))'), 'MRU: reads in temporaries'),
    ('P12', 'P', MRUF, SRC, rep('range(self.flags & 0xf)', 'range(0xf & self.flags)'), 'MRU: operands of & exchanged'),
    ('P13', 'P', CO, SRC, seq(lambda s: s.replace('currentSize', 'cur'), rep('type = get_value(', 'kind = get_value('), lambda s: s.replace('if type == ', 'if kind == ')), 'Callout: locals renamed'),
    ('P14', 'P', CO, SRC, seq(rep('0x4944', '18756'), rep('0x5045', '20549')), 'Callout: type constants in decimal'),
    ('P15', 'P', CO, SRC, rep('if self.locationCodeSize > 0:', 'if self.locationCodeSize:'), 'Callout: truthiness instead of > 0'),
    ('P16', 'P', CO, SRC, rep('while self.size > currentSize:', 'while currentSize < self.size:'), 'Callout: loop condition written the other way round'),
    ('P17', 'P', CO, SRC, rep('        self.fruIdentity = None\n        self.pceIdentity = None\n        self.mru = None\n\n        currentSize = 4 + self.locationCodeSize\n',
                              '        currentSize = 4 + self.locationCodeSize\n        self.mru = None\n        self.pceIdentity = None\n        self.fruIdentity = None\n'), 'Callout: initialisations reordered (changes the order of the loop state)'),
    ('P18', 'P', CO, SRC, rep('            elif type == 0x5045:\n                self.pceIdentity = PCEIdentity(stream)\n                currentSize += self.pceIdentity.flattenedSize\n            elif type == 0x4D52:\n                self.mru = MRU(stream)\n                currentSize += self.mru.flattenedSize\n',
                              '            elif type == 0x4D52:\n                self.mru = MRU(stream)\n                currentSize += self.mru.flattenedSize\n            elif type == 0x5045:\n                self.pceIdentity = PCEIdentity(stream)\n                currentSize += self.pceIdentity.flattenedSize\n'), 'Callout: two disjoint branches exchanged'),
    ('P19', 'P', FS, SRC, seq(rep('        size = 4 + self.locationCodeSize\n', '        total = 4 + self.locationCodeSize\n'), lambda s: s.replace('        size += self.', '        total += self.'), rep('        return size\n', '        return total\n')), 'flattenedSize: local renamed'),
    ('P20', 'P', FS, SRC, rep('        size += self.fruIdentity.flattenedSize if self.fruIdentity else 0\n', '        if self.fruIdentity:\n            size += self.fruIdentity.flattenedSize\n'), 'flattenedSize: conditional expression as a statement'),
    ('P21', 'P', CJ, SRC, rep('mruId += "%08X" % mru.id + ","', 'mruId += "{:08X},".format(mru.id)'), 'callout: format instead of %'),
    ('P22', 'P', CJ, SRC, rep('if len(callout.locationCode) > 0:', 'if callout.locationCode:'), 'callout: truthiness of the string instead of its length'),
    ('P23', 'P', CJ + ',' + DC, SRC, region('        for callout in callouts:', '        od["Callouts"] = calloutJsons',
                                            seq(rex(r'\bcallout\b', 'co'), rex(r'\bjson\b', 'entry'))),
     'callouts: loop variable and dictionary renamed'),
    ('P24', 'P', CJ, SRC, rep('if len(callout.pceIdentity.pceName):', 'if len(callout.pceIdentity.pceName) > 0:'), 'callout: explicit > 0'),
    ('P25', 'P', CJ, SRC, rep('                mru = OrderedDict()\n', ''), 'callout: unused dictionary dropped'),
    ('P26', 'P', DC, SRC, seq(lambda s: s.replace('subsectionWordLength', 'wordLen').replace('currentLength', 'length'), rep('_ = self.stream.get_int(1)  # subsectionID', 'subsectionID = self.stream.get_int(1)')), 'callouts: locals renamed'),
    ('P27', 'P', DC, SRC, rep('while subsectionWordLength * 4 > currentLength:', 'while currentLength < subsectionWordLength * 4:'), 'callouts: loop condition written the other way round'),
    ('P28', 'P', DC, SRC, rep('        od = OrderedDict()\n        _ = self.stream.get_int(1)  # subsectionID', '        _ = self.stream.get_int(1)  # subsectionID\n        od = OrderedDict()'), 'callouts: independent statements reordered'),
    ('P29', 'P', DS, SRC, seq(lambda s: s.replace('hexwords', 'hw').replace('tmpWord', 'word'), rep('            num = i\n            if num >= 2 and num <= 9:\n                num -= 2\n', '            idx = i\n            if idx >= 2 and idx <= 9:\n                idx -= 2\n'),
                              rep('self.hexData[num]', 'self.hexData[idx]')), 'SRC: locals renamed'),
    ('P30', 'P', DS, SRC, seq(rep('"0x{:02X}".format(self.hexData[0] & 0xFF)', 'f"0x{self.hexData[0] & 0xFF:02X}"'), rep('"0x" + "%02X" % self.wordCount', '"0x%02X" % self.wordCount')), 'SRC: f-string / one % format'),
    ('P31', 'P', DS, SRC, lambda s: s.replace('self.asciiString[0:2]', 'self.asciiString[:2]'), 'SRC: slice without its lower bound'),
    ('P32', 'P', DS, SRC, rep('if self.flags & HeaderFlags.additionalSections.value:', 'if (self.flags & HeaderFlags.additionalSections.value) != 0:'), 'SRC: explicit != 0'),
    ('P33', 'P', DS, SRC, seq(rep('        is_bmc_src = self.srcType == SRCType.bmcError.value or self.srcType == SRCType.powerError.value\n        is_hostboot_src = self.srcType == SRCType.hostbootError.value\n', ''),
                              rep('        if is_bmc_src:\n', '        if self.srcType == SRCType.bmcError.value or self.srcType == SRCType.powerError.value:\n'),
                              rep('        if is_bmc_src or is_hostboot_src:\n', '        if (self.srcType == SRCType.bmcError.value or self.srcType == SRCType.powerError.value) or self.srcType == SRCType.hostbootError.value:\n')),
     'SRC: type tests inlined'),
    ('P34', 'P', DS, SRC, seq(rep('    def toJSON(self, config: Config) -> OrderedDict:\n', '    def toJSON(self, config: "Config") -> "OrderedDict[str, object]":\n        """decode the section\n\n        (docstring)"""\n        # comment\n'),
                              rep('        out = OrderedDict()\n        out["Section Version"]', '        out: OrderedDict = OrderedDict()  # typed\n        out["Section Version"]')), 'SRC: docstring, comments, type hints'),
    ('P35', 'P', DS, SRC, rep('        self.version = 0\n        self.flags = 0\n', '        self.flags = 0\n        self.version = 0\n'), 'SRC: __init__ defaults reordered'),
    ('P36', 'P', DS, SRC, rep('    hypDumpInit = 0x04\n', '    hypDumpInit = 0x04\n    reservedBit = 0x20\n'), 'HeaderFlags: an unused member added'),
    ('P37', 'P', DS, SRC, rep('        self.srcType = self.asciiString[0:2]\n\n        out = OrderedDict()\n', '\n        out = OrderedDict()\n        self.srcType = self.asciiString[0:2]\n'), 'SRC: independent statements reordered'),
    ('P38', 'P', DS, SRC, rep('str("%04X" % (self.hexData[1] >> 16))', '"%04X" % (self.hexData[1] >> 16)'), 'SRC: redundant str() dropped'),
    ('P39', 'P', DS, SRC, rep('            num = i\n            if num >= 2 and num <= 9:\n                num -= 2\n', '            num = i\n            if 2 <= num and num <= 9:\n                num = num - 2\n'), 'SRC: index adjustment written differently'),
    ('P40', 'P', DS, SRC, seq(lambda s: s.replace('self.hexData', 'self.words'), lambda s: s.replace('self.asciiString', 'self.refcode')), 'SRC: attributes hexData / asciiString renamed everywhere'),
    ('P41', 'P', PCE, SRC, rep('            print("PCE identity structure size field too small",\n                  file=sys.stderr)\n            return\n', '            return\n'), 'PCE: diagnostic on stderr dropped (stderr is not part of the model)'),
    ('P42', 'P', FRU + ',' + CJ, SRC, lambda s: s.replace('self.ccin', 'self.ccinText').replace('fruIdentity.ccin', 'fruIdentity.ccinText'), 'FRU: INTERFACE attribute ccin renamed in both classes (name map: UNAVAILABLE expected)'),
    ('P43', 'P', PCE, SRC, rep('        if self.flattenedSize < (4 + 8 + 12):\n            print("PCE identity structure size field too small",\n                  file=sys.stderr)\n            return\n        self.pceNameSize = self.flattenedSize - (4 + 8 + 12)\n        self.pceName = bytes.decode(\n            stream.get_mem(self.pceNameSize)).strip("\\u0000")',
                               '        if self.flattenedSize < (4 + 8 + 12):\n            print("PCE identity structure size field too small",\n                  file=sys.stderr)\n        else:\n            self.pceNameSize = self.flattenedSize - (4 + 8 + 12)\n            self.pceName = bytes.decode(\n                stream.get_mem(self.pceNameSize)).strip("\\u0000")'), 'PCE: early return written as if/else'),
    ('P44', 'P', DS, SRC, rep('        for i in range(8):\n            self.hexData.append(self.stream.get_int(4))', '        for k in range(8):\n            word = self.stream.get_int(4)\n            self.hexData.append(word)'), 'SRC: hex word read into a temporary first'),
]


def run(cmd, cwd, timeout=1800):
    env = dict(os.environ, VERIF_REPO=REPO, PYTHONDONTWRITEBYTECODE='1')
    r = subprocess.run(cmd, cwd=cwd, env=env, stdout=subprocess.PIPE, stderr=subprocess.STDOUT, text=True, timeout=timeout)
    return r.returncode, r.stdout


def restore():
    run(['git', 'checkout', '--', '.'], REPO)


def tie_theorems():
    """(line, name) of the theorems of TieC03.lean"""
    out = []
    prev = ''
    for n, line in enumerate(open(os.path.join(LEAN, 'PelProps', 'TieC03.lean')), 1):
        m = re.match(r'\s*theorem\s+(\S+)', line)
        if m:
            # Lean reports some errors at the start of the declaration, which is its doc comment
            out.append((n - 1 if prev.lstrip().startswith('/--') else n, m.group(1)))
        prev = line
    return out


def evaluate(target):
    """-> (translated?, proved?, detail)"""
    rc, out = run([PY, os.path.join(VERIF, 'harness', 'extract.py')], VERIF)
    if rc != 0:
        return None, None, 'extract.py failed: ' + out[-300:]
    unavailable = {}
    for l in out.split('\n'):
        if l.startswith('TRANSLATION-UNAVAILABLE '):
            nm, _, why = l[len('TRANSLATION-UNAVAILABLE '):].partition(' ')
            unavailable[nm] = why
    rc, out = run(['lake', 'build', 'PelProps.TieC03'], LEAN)
    broken = []
    if rc != 0:
        ths = tie_theorems()
        for m in re.finditer(r'TieC03\.lean:(\d+):\d+', out):
            ln = int(m.group(1))
            owner = None
            for st, nm in ths:
                if st <= ln:
                    owner = nm
            if owner and owner not in broken:
                broken.append(owner)
        if not broken:
            broken.append('?')
    targets = target.split(',')
    others = [u for u in unavailable if u not in targets]
    detail = ''
    for tg in targets:
        if tg in unavailable:
            detail += '%s: %s ' % (tg, unavailable[tg])
    if others:
        detail += ' [also unavailable: %s]' % ', '.join(others)
    if broken:
        detail += ' broken: ' + ', '.join(broken)
    return not any(tg in unavailable for tg in targets), rc == 0, detail.strip()


def main():
    args = sys.argv[1:]
    sel = None
    if '-k' in args:
        sel = args[args.index('-k') + 1]
    rc, out = run(['git', 'status', '--porcelain'], REPO)
    if out.strip():
        sys.exit('the worktree %s is not clean:\n%s' % (REPO, out))
    rows = []
    bad = 0
    try:
        t, p, d = evaluate('-')
        print('%-4s %-1s %-22s %-11s %-9s %s' % ('id', 'k', 'function', 'translated', 'tie', 'verdict / description'))
        print('%-4s %-1s %-22s %-11s %-9s %s' % ('base', '-', '(all)', 'yes' if not d else 'NO', 'proved' if p else 'BROKEN', ('unexpected: ' + d) if d or not p else 'clean tree'))
        if d or not p:
            bad += 1
        for mid, kind, target, path, edit, desc in MUTANTS:
            if sel and not any(x in mid or x in target for x in sel.split(',')):
                continue
            full = os.path.join(REPO, path)
            text = open(full, encoding='utf-8').read()
            try:
                new = edit(text)
            except RuntimeError as e:
                print('%-4s %-1s %-22s %-11s %-9s MUTANT DOES NOT APPLY: %s' % (mid, kind, target, '-', '-', e))
                bad += 1
                continue
            try:
                compile(new, full, 'exec')
            except SyntaxError as e:
                print('%-4s %-1s %-22s %-11s %-9s MUTANT IS NOT PYTHON: %s' % (mid, kind, target, '-', '-', e))
                bad += 1
                continue
            with open(full, 'w', encoding='utf-8') as f:
                f.write(new)
            try:
                t, p, d = evaluate(target)
            finally:
                restore()
            if t is None:
                verdict = 'ERROR ' + d
                bad += 1
            elif not t:
                verdict = 'ok (unavailable)' if kind == 'B' else 'acceptable (unavailable)'
            elif p:
                verdict = 'ok (still proved)' if kind == 'P' else '*** MISSED: behaviour change still proved ***'
                bad += kind == 'B'
            else:
                verdict = 'ok (tie broken)' if kind == 'B' else 'FALSE ALARM (tie broken on a harmless rewrite)'
            print('%-4s %-1s %-22s %-11s %-9s %s | %s%s' % (mid, kind, target, 'yes' if t else 'UNAVAILABLE', ('proved' if p else 'BROKEN') if t else '-',
                                                          verdict, desc, (' | ' + d) if d else ''))
            sys.stdout.flush()
            rows.append((mid, kind, t, p))
    finally:
        restore()
        evaluate('-')
    nb = [r for r in rows if r[1] == 'B']
    npp = [r for r in rows if r[1] == 'P']
    print('behaviour-changing: %d mutants, %d tie broken, %d unavailable, %d MISSED' % (
        len(nb), sum(1 for r in nb if r[2] and not r[3]), sum(1 for r in nb if not r[2]), sum(1 for r in nb if r[2] and r[3])))
    print('behaviour-preserving: %d rewrites, %d still proved, %d unavailable, %d tie broken' % (
        len(npp), sum(1 for r in npp if r[2] and r[3]), sum(1 for r in npp if not r[2]), sum(1 for r in npp if r[2] and not r[3])))
    sys.exit(1 if bad else 0)


if __name__ == '__main__':
    main()
