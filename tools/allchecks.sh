#!/bin/bash
# tools/allchecks.sh [tier] [seeds...] : run every registered check on the current tree, in parallel, for each seed
here=$(cd "$(dirname "$0")/.." && pwd)
out=${ALLCHECKS_OUT:-/tmp/allchecks}
tier=${1:-quick}; shift
seeds=${@:-1}
mkdir -p $out
for seed in $seeds; do
  n=0
  for i in 01 02 03 04 05 06 07 08 09 10 11 12 13 14 15 16 17 18 19 20; do
    ( VERIF_SEED=$seed $here/check C$i --tier $tier > $out/C$i.$seed.log 2>&1; echo "seed=$seed C$i exit=$? $(tail -1 $out/C$i.$seed.log | cut -c1-150)" ) &
    n=$((n+1))
    if [ -n "$ALLCHECKS_JOBS" ] && [ $((n % ALLCHECKS_JOBS)) -eq 0 ]; then wait; fi
  done
  wait
done | sort
