#!/usr/bin/env python3
"""tools/seedrecord.py <seed root> <seedout dir>: copy confirmed seeded changes into /verif/seeded/<id>/ with a meta.json
   (property broken, what it needs to manifest, what was run, which checks caught it).  Re-runnable: refreshes `caught_by`."""
import json, os, re, shutil, sys
root, outd = sys.argv[1], sys.argv[2]
V = os.path.dirname(os.path.dirname(os.path.abspath(__file__)))
for c in sorted(os.listdir(root)):
    for v in ('A', 'B', 'C', 'D'):
        d = os.path.join(root, c, 'out', v)
        if not os.path.exists(os.path.join(d, 'patch.diff')):
            continue
        sid = '%s-%s' % (c, v)
        vf = os.path.join(outd, sid + '.verify.json')
        if not os.path.exists(vf):
            continue
        ver = json.load(open(vf))
        if not ver.get('confirmed'):
            print(sid, 'not confirmed: skipped')
            continue
        dst = os.path.join(V, 'seeded', sid)
        os.makedirs(dst, exist_ok=True)
        shutil.copy(os.path.join(d, 'patch.diff'), dst)
        shutil.copy(os.path.join(d, 'demo.py'), dst)
        am = {}
        try:
            am = json.load(open(os.path.join(d, 'meta.json')))
        except Exception:
            pass
        run = open(os.path.join(outd, sid + '.run.txt')).read() if os.path.exists(os.path.join(outd, sid + '.run.txt')) else ''
        m = re.search(r'CAUGHT-BY (\S+)', run)
        caught = [] if not m or m.group(1) == '-' else m.group(1).split(',')
        lines = [l for l in run.split('\n') if re.match(r'C\d\d rc=', l)]
        old = {}
        if os.path.exists(os.path.join(dst, 'meta.json')):
            old = json.load(open(os.path.join(dst, 'meta.json')))
        hist = old.get('history', [])
        entry = {'verif_commit': os.popen('git -C %s rev-parse --short HEAD' % V).read().strip(), 'caught_by': caught,
                 'nonzero': [l for l in lines if ' rc=0 ' not in l]}
        if not hist or hist[-1].get('caught_by') != caught or hist[-1].get('verif_commit') != entry['verif_commit']:
            hist.append(entry)
        meta = {'id': sid, 'property': c, 'author': 'independent sub-agent given only the property text and a scratch worktree',
                'summary': am.get('summary'), 'violates': am.get('violates'), 'needs': am.get('needs'), 'files': am.get('files'),
                'confirmed': {'how': 'tools/seedverify.py in a fresh scratch worktree of /repo: demo.py exits 0 on the clean tree; patch applies; '
                                     'repository test suite 55 passed with the patch; demo.py exits non-zero with the patch',
                              'tests_passed_with_patch': ver.get('tests_passed'), 'demo_clean_rc': ver.get('demo_clean_rc'),
                              'demo_patched_rc': ver.get('demo_patched_rc'), 'demo_patched_tail': (ver.get('demo_patched_tail') or '')[-300:]},
                'checks_run': 'tools/seedrun.py <patch>: git -C /repo apply; all twenty ./check Cxx --tier quick; git -C /repo apply -R (tree verified clean)',
                'caught_by': caught, 'own_property_check_catches': c in caught, 'history': hist}
        json.dump(meta, open(os.path.join(dst, 'meta.json'), 'w'), indent=1)
        print(sid, 'caught by', caught or '-')
