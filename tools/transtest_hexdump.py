#!/venv/bin/python
"""
Self-test of the source-to-Lean tie of stream `hexdump` (harness/trans_hexdump.py, lean/PelProps/TieC13.lean, TieC17.lean).

Applies source MUTANTS one at a time to the repository worktree named by VERIF_REPO (never /repo), runs harness/extract.py
(regenerates lean/PelGen/GenHexdump.lean from the mutated text) and `lake build PelProps.TieC13 PelProps.TieC17`, and prints

    mutant | kind | verdict | definitions that became `none` | tie modules that no longer build

verdict:  PROVED       every definition is still generated and every tie theorem is still proved
          UNAVAILABLE  the mutated function left the translatable subset (`none`); the ties that remain are proved
          BROKEN       a generated definition is no longer provably equal to the model (a tie module does not build; where the column
                       names C13 / C17 instead, the mutant already breaks a pin of PelProps/C13|C17.lean, which the tie modules import)
Expected: a behaviour-CHANGING mutant is never PROVED; a behaviour-PRESERVING rewrite is ideally PROVED, acceptably
UNAVAILABLE, and should rarely be BROKEN.  The worktree is always restored (`git checkout -- .`), and the generated file is
regenerated from the clean tree at the end.

usage: VERIF_REPO=/tmp/work/T7/repo tools/transtest_hexdump.py [substring of mutant names …]
"""
import os
import re
import sys
import time

VERIF = os.path.dirname(os.path.dirname(os.path.abspath(__file__)))
REPO = os.environ.get('VERIF_REPO')
if not REPO or os.path.realpath(REPO) == '/repo':
    sys.exit('set VERIF_REPO to a scratch worktree (never /repo)')
sys.path.insert(0, os.path.join(VERIF, 'tools'))
from transtest_peltool import sub, in_func, seq, rename, swap_blocks, run     # noqa: E402  (the helpers of stream `peltool`)

HD = 'modules/pel/hexdump.py'
DP = 'modules/io_drawer/dump.py'
TR = 'modules/io_drawer/trace.py'
FILES = (HD, DP, TR)
TIES = ['TieC13', 'TieC17']

C, P = 'change', 'preserve'

APPEND = '        dump.append(("%08X     %s     %s") % (i, raw, text))\n'
ASCII = "            text += chr(b) if 0x20 <= b < 0x7f else '.'\n"
CHUNK = "            if 0 != j and 0 == j % bytes_per_chunk:\n"
ILOG_CALL = '    _format_ilog_data(ilog_data, lines, header_file)\n'
TRACE_LOOP = '''    for (i, buffer_offset) in enumerate(buffer_offsets):
        begin = buffer_offset
        if (i + 1) < len(buffer_offsets):
            end = buffer_offsets[i + 1]
        else:
            end = len(data)
        trace_data = data[begin:end]
        _format_trace_data(trace_data, lines, string_file)
'''
END_IF = '''    if buffer_offsets:
        end = buffer_offsets[0]
    else:
        end = len(data) 
'''
D_BRANCH_CHECK = '''                elif (line_format[i] == 'D'):
                    if not hex_digit.match(line[i]):
                        break
'''

# the refactoring harmless/G6-R1 (renamed loop locals, natural operand order, f-string line; parse: guard clause + flattened loop body)
G6R1_HEXDUMP_OLD = '    for i in range(0, len(data), bytes_per_line):\n\n        raw  = \'\'\n        text = \'\'\n\n        # Iterate the data for this line.\n        for j, b in enumerate(data[i:i+bytes_per_line]):\n\n            # Add spaces in between each chunk.\n            if 0 != j and 0 == j % bytes_per_chunk:\n                raw += \'  \'\n\n            # Convert to hex string.\n            raw += ("%02X") % (b)\n\n            # Convert to character.\n            text += chr(b) if 0x20 <= b < 0x7f else \'.\'\n\n        # Left justify to pad spaces on the right.\n        raw  = raw.ljust(char_per_line)\n        text = text.ljust(bytes_per_line)\n\n        # Append a new line in the output\n        dump.append(("%08X     %s     %s") % (i, raw, text))\n'
G6R1_HEXDUMP_NEW = '    for offset in range(0, len(data), bytes_per_line):\n\n        raw  = \'\'\n        text = \'\'\n\n        # Iterate the data for this line.\n        for pos, byte in enumerate(data[offset:offset+bytes_per_line]):\n\n            # Add spaces in between each chunk.\n            if pos != 0 and pos % bytes_per_chunk == 0:\n                raw += \'  \'\n\n            # Convert to hex string.\n            raw += "%02X" % byte\n\n            # Convert to character.\n            text += chr(byte) if 0x20 <= byte < 0x7f else \'.\'\n\n        # Left justify to pad spaces on the right.\n        raw  = raw.ljust(char_per_line)\n        text = text.ljust(bytes_per_line)\n\n        # Append a new line in the output\n        dump.append(f\'{offset:08X}     {raw}     {text}\')\n'
G6R1_PARSE_OLD = "        prev_byte_is_high_nibble = False\n        # Note: sometimes last line of hexdump is shorter than line format\n        if len(line) <= len(line_format):\n            for i in range(len(line)):\n                if (line_format[i] == 'A'):\n                    if not hex_digit.match(line[i]):\n                        break\n                elif (line_format[i] == 'D'):\n                    if not hex_digit.match(line[i]):\n                        break\n                    if prev_byte_is_high_nibble:\n                        byte_val = bytes.fromhex(line[(i-1):(i+1)])\n                        data.extend(byte_val)\n                        prev_byte_is_high_nibble = False\n                    else:\n                        prev_byte_is_high_nibble = True\n                elif (line_format[i] == 'C'):\n                    continue\n                elif (line_format[i] != line[i]):\n                    break\n    return data"
G6R1_PARSE_NEW = "        # Note: sometimes last line of hexdump is shorter than line format\n        if len(line) > len(line_format):\n            continue\n        have_high_nibble = False\n        for i in range(len(line)):\n            format_char = line_format[i]\n            if format_char == 'C':\n                continue\n            if format_char != 'A' and format_char != 'D':\n                # Literal character: must be present in the line\n                if format_char != line[i]:\n                    break\n                continue\n            # Address or data position: must hold a hex digit\n            if not hex_digit.match(line[i]):\n                break\n            if format_char == 'D':\n                if have_high_nibble:\n                    data.extend(bytes.fromhex(line[(i-1):(i+1)]))\n                have_high_nibble = not have_high_nibble\n    return data"

MUTANTS = [
    # ---------------- behaviour-changing: hexdump ----------------
    ('hd-assert-bound', C, sub(HD, 'assert 1 <= bytes_per_line <= 256,', 'assert 1 <= bytes_per_line <= 255,')),
    ('hd-assert-dropped', C, sub(HD, '    assert 1 <= bytes_per_line <= 256, "bytes_per_line must be within 1-256"\n', '')),
    ('hd-cell-width', C, sub(HD, 'raw += ("%02X") % (b)', 'raw += ("%03X") % (b)')),
    ('hd-cell-lower-case', C, sub(HD, 'raw += ("%02X") % (b)', 'raw += ("%02x") % (b)')),
    ('hd-cell-decimal', C, sub(HD, 'raw += ("%02X") % (b)', 'raw += ("%02d") % (b)')),
    ('hd-offset-width', C, sub(HD, '("%08X     %s     %s")', '("%06X     %s     %s")')),
    ('hd-gap', C, sub(HD, '("%08X     %s     %s")', '("%08X     %s    %s")')),
    ('hd-chunk-separator', C, sub(HD, "                raw += '  '\n", "                raw += ' '\n")),
    ('hd-chunk-test-value', C, sub(HD, CHUNK, CHUNK.replace('0 == j %', '1 == j %'))),
    ('hd-chunk-first-too', C, sub(HD, CHUNK, '            if 0 == j % bytes_per_chunk:\n')),
    ('hd-chunk-or', C, sub(HD, CHUNK, CHUNK.replace(' and ', ' or '))),
    ('hd-chunk-modulus', C, sub(HD, CHUNK, CHUNK.replace('% bytes_per_chunk', '% bytes_per_line'))),
    ('hd-ascii-low-bound', C, sub(HD, ASCII, ASCII.replace('0x20 <= b', '0x21 <= b'))),
    ('hd-ascii-high-bound', C, sub(HD, ASCII, ASCII.replace('b < 0x7f', 'b <= 0x7f'))),
    ('hd-ascii-dot', C, sub(HD, ASCII, ASCII.replace("'.'", "'?'"))),
    ('hd-ascii-arms-swapped', C, sub(HD, ASCII, "            text += '.' if 0x20 <= b < 0x7f else chr(b)\n")),
    ('hd-ljust-widths-swapped', C, sub(HD, '        raw  = raw.ljust(char_per_line)\n        text = text.ljust(bytes_per_line)\n',
                                       '        raw  = raw.ljust(bytes_per_line)\n        text = text.ljust(char_per_line)\n')),
    ('hd-ljust-dropped', C, sub(HD, '        text = text.ljust(bytes_per_line)\n', '')),
    ('hd-width-formula', C, sub(HD, 'char_per_line = bytes_per_line * 2 + (2 * num_chunks) - 2', 'char_per_line = bytes_per_line * 2 + (2 * num_chunks) - 1')),
    ('hd-width-ceil-to-floor', C, sub(HD, 'num_chunks = math.ceil(bytes_per_line / bytes_per_chunk)', 'num_chunks = bytes_per_line // bytes_per_chunk')),
    ('hd-step', C, sub(HD, 'for i in range(0, len(data), bytes_per_line):', 'for i in range(0, len(data), bytes_per_chunk):')),
    ('hd-range-start', C, sub(HD, 'for i in range(0, len(data), bytes_per_line):', 'for i in range(1, len(data), bytes_per_line):')),
    ('hd-slice-length', C, sub(HD, 'enumerate(data[i:i+bytes_per_line])', 'enumerate(data[i:i+bytes_per_chunk])')),
    ('hd-slice-start', C, sub(HD, 'enumerate(data[i:i+bytes_per_line])', 'enumerate(data[0:i+bytes_per_line])')),
    ('hd-fields-swapped', C, sub(HD, APPEND, APPEND.replace('(i, raw, text)', '(i, text, raw)'))),
    ('hd-offset-of-next-line', C, sub(HD, APPEND, APPEND.replace('(i, raw, text)', '(i + bytes_per_line, raw, text)'))),
    ('hd-line-appended-twice', C, sub(HD, APPEND, APPEND + APPEND)),
    ('hd-append-inside-cell-loop', C, seq(sub(HD, APPEND, ''), sub(HD, ASCII, ASCII + '    ' + APPEND))),
    ('hd-raw-reset-dropped', C, sub(HD, "        raw  = ''\n        text = ''\n", "        text = ''\n")),
    ('hd-default-chunk', C, sub(HD, 'bytes_per_chunk: int = 4', 'bytes_per_chunk: int = 8')),
    ('hd-default-line', C, sub(HD, 'bytes_per_line: int = 16', 'bytes_per_line: int = 32')),
    # ---------------- behaviour-changing: parse ----------------
    ('ps-template-letter', C, sub(HD, "if (line_format[i] == 'A'):", "if (line_format[i] == 'a'):")),
    ('ps-template-letters-swapped', C, seq(sub(HD, "if (line_format[i] == 'A'):", "if (line_format[i] == 'C'):"),
                                         sub(HD, "elif (line_format[i] == 'C'):", "elif (line_format[i] == 'A'):"))),
    ('ps-class-lower-only', C, sub(HD, "re.compile('^[0-9a-fA-F]$')", "re.compile('^[0-9a-f]$')")),
    ('ps-class-wider', C, sub(HD, "re.compile('^[0-9a-fA-F]$')", "re.compile('^[0-9a-gA-F]$')")),
    ('ps-slice-one-char', C, sub(HD, 'bytes.fromhex(line[(i-1):(i+1)])', 'bytes.fromhex(line[i:(i+1)])')),
    ('ps-slice-shifted', C, sub(HD, 'bytes.fromhex(line[(i-1):(i+1)])', 'bytes.fromhex(line[(i-1):i])')),
    ('ps-flag-not-reset', C, sub(HD, '                        data.extend(byte_val)\n                        prev_byte_is_high_nibble = False\n',
                                 '                        data.extend(byte_val)\n')),
    ('ps-flag-not-set', C, sub(HD, '                    else:\n                        prev_byte_is_high_nibble = True\n',
                               '                    else:\n                        prev_byte_is_high_nibble = False\n')),
    ('ps-flag-initial', C, sub(HD, '        prev_byte_is_high_nibble = False\n        # Note', '        prev_byte_is_high_nibble = True\n        # Note')),
    ('ps-flag-kept-across-lines', C, sub(HD, '    for line in lines:\n        line = line.rstrip(\'\\n\')\n        prev_byte_is_high_nibble = False\n',
                                         '    prev_byte_is_high_nibble = False\n    for line in lines:\n        line = line.rstrip(\'\\n\')\n')),
    ('ps-length-test', C, sub(HD, 'if len(line) <= len(line_format):', 'if len(line) < len(line_format):')),
    ('ps-length-test-dropped', C, sub(HD, 'if len(line) <= len(line_format):', 'if True:')),
    ('ps-rstrip-char', C, sub(HD, "line = line.rstrip('\\n')", "line = line.rstrip(' ')")),
    ('ps-rstrip-dropped', C, sub(HD, "        line = line.rstrip('\\n')\n", '')),
    ('ps-ascii-column-checked', C, sub(HD, "                elif (line_format[i] == 'C'):\n                    continue\n",
                                       "                elif (line_format[i] == 'C'):\n                    break\n")),
    ('ps-literal-test-inverted', C, sub(HD, 'elif (line_format[i] != line[i]):', 'elif (line_format[i] == line[i]):')),
    ('ps-address-not-checked', C, sub(HD, "                if (line_format[i] == 'A'):\n                    if not hex_digit.match(line[i]):\n                        break\n",
                                      "                if (line_format[i] == 'A'):\n                    if not hex_digit.match(line[i]):\n                        continue\n")),
    ('ps-data-not-checked', C, sub(HD, D_BRANCH_CHECK, "                elif (line_format[i] == 'D'):\n")),
    ('ps-data-check-negated', C, sub(HD, D_BRANCH_CHECK, D_BRANCH_CHECK.replace('if not hex_digit', 'if hex_digit'))),
    ('ps-extend-twice', C, sub(HD, '                        data.extend(byte_val)\n', '                        data.extend(byte_val)\n                        data.extend(byte_val)\n')),
    ('ps-default-template', C, sub(HD, "'AAAAAAAA     DDDDDDDD  DDDDDDDD  DDDDDDDD  DDDDDDDD     CCCCCCCCCCCCCCCC'",
                                   "'AAAAAAAA     DDDDDDDD DDDDDDDD DDDDDDDD DDDDDDDD     CCCCCCCCCCCCCCCC'")),
    ('ps-range-from-one', C, sub(HD, 'for i in range(len(line)):', 'for i in range(1, len(line)):')),
    # ---------------- behaviour-changing: dump.py ----------------
    ('dd-header-start-byte', C, sub(DP, "b'\\x42')       # endian_flg", "b'\\x4c')       # endian_flg")),
    ('dd-header-start-shorter', C, sub(DP, "                             b'\\x01'        # time_flg field\n", '')),
    ('dd-divider-shorter', C, sub(DP, "'-------------------------------------------------------------------------'",
                                  "'------------------------------------------------------------------------'")),
    ('dd-formats-swapped', C,
     sub(DP, "    'AAAA:  DDDDDDDD DDDDDDDD DDDDDDDD DDDDDDDD  <CCCCCCCCCCCCCCCC>',\n\n    # Format for pre-BMC systems\n    'DD DD DD DD DD DD DD DD DD DD DD DD DD DD DD DD CCCCCCCCCCCCCCCC'\n",
         "    'DD DD DD DD DD DD DD DD DD DD DD DD DD DD DD DD CCCCCCCCCCCCCCCC',\n\n    # Format for pre-BMC systems\n    'AAAA:  DDDDDDDD DDDDDDDD DDDDDDDD DDDDDDDD  <CCCCCCCCCCCCCCCC>'\n")),
    ('dd-format-text', C, sub(DP, "'AAAA:  DDDDDDDD DDDDDDDD", "'AAAA: DDDDDDDD DDDDDDDD")),
    ('dd-format-dropped', C, sub(DP, "    'AAAA:  DDDDDDDD DDDDDDDD DDDDDDDD DDDDDDDD  <CCCCCCCCCCCCCCCC>',\n", '')),
    ('dd-ilog-heading', C, sub(DP, "    lines.append('ILOG')\n", "    lines.append('Ilog')\n")),
    ('dd-trace-heading', C, sub(DP, "    lines.append('Trace')\n", "    lines.append('TRACE')\n")),
    ('dd-blank-line-dropped', C, sub(DP, "    lines.append('Trace')\n    lines.append('')\n", "    lines.append('Trace')\n")),
    ('dd-divider-before-data', C, sub(DP, "    lines.extend(parse_ilog_data(data, header_file))\n    lines.append('')\n    lines.append(DIVIDER_LINE)\n",
                                      "    lines.append(DIVIDER_LINE)\n    lines.extend(parse_ilog_data(data, header_file))\n    lines.append('')\n")),
    ('dd-trace-decoded-as-ilog', C, sub(DP, '    lines.extend(parse_trace_data(data, string_file))\n', '    lines.extend(parse_ilog_data(data, string_file))\n')),
    ('dd-find-test-inverted', C, sub(DP, 'if offset != -1:', 'if offset == -1:')),
    ('dd-find-test-zero', C, sub(DP, 'if offset != -1:', 'if offset != 0:')),
    ('dd-find-in-view', C, sub(DP, 'offset = data_bytes.find(start_bytes)', 'offset = data_bytes.find(buffer_name.encode())')),
    ('dd-name-before-start', C, sub(DP, 'start_bytes = TRACE_BUFFER_HEADER_START + buffer_name.encode()', 'start_bytes = buffer_name.encode() + TRACE_BUFFER_HEADER_START')),
    ('dd-not-sorted', C, sub(DP, '    buffer_offsets = sorted(buffer_offsets)\n', '')),
    ('dd-ilog-to-end', C, sub(DP, END_IF, '    end = len(data)\n')),
    ('dd-ilog-test-inverted', C, sub(DP, END_IF, END_IF.replace('if buffer_offsets:', 'if not buffer_offsets:'))),
    ('dd-ilog-begin', C, sub(DP, '    begin = 0\n    if buffer_offsets:', '    begin = 8\n    if buffer_offsets:')),
    ('dd-next-offset', C, sub(DP, TRACE_LOOP, TRACE_LOOP.replace('end = buffer_offsets[i + 1]', 'end = buffer_offsets[i]'))),
    ('dd-region-test', C, sub(DP, TRACE_LOOP, TRACE_LOOP.replace('(i + 1) < len(buffer_offsets)', '(i + 1) <= len(buffer_offsets)'))),
    ('dd-region-always-to-end', C, sub(DP, TRACE_LOOP, TRACE_LOOP.replace('            end = buffer_offsets[i + 1]\n', '            end = len(data)\n'))),
    ('dd-region-begin', C, sub(DP, TRACE_LOOP, TRACE_LOOP.replace('begin = buffer_offset\n', 'begin = buffer_offset + 1\n'))),
    ('dd-region-slice-swapped', C, sub(DP, TRACE_LOOP, TRACE_LOOP.replace('trace_data = data[begin:end]', 'trace_data = data[end:begin]'))),
    ('dd-empty-test-dropped', C, sub(DP, '    if not data:\n        return lines\n', '')),
    ('dd-empty-test-inverted', C, sub(DP, '    if not data:\n        return lines\n', '    if data:\n        return lines\n')),
    ('dd-ilog-after-traces', C, seq(sub(DP, ILOG_CALL, ''), sub(DP, TRACE_LOOP, TRACE_LOOP + ILOG_CALL))),
    ('dd-ilog-dropped', C, sub(DP, ILOG_CALL, '')),
    ('dd-ilog-gets-all-data', C, sub(DP, ILOG_CALL, '    _format_ilog_data(data, lines, header_file)\n')),
    ('dd-buffer-name-dropped', C, sub(TR, "BUFFER_NAMES = ['IICS', 'IICM', 'POWR', 'FANS', 'INFO', 'ERRL']", "BUFFER_NAMES = ['IICS', 'IICM', 'POWR', 'FANS', 'INFO']")),
    ('dd-buffer-name-case', C, sub(TR, "BUFFER_NAMES = ['IICS', 'IICM', 'POWR', 'FANS', 'INFO', 'ERRL']", "BUFFER_NAMES = ['IICS', 'IICM', 'POWR', 'FANS', 'INFO', 'Errl']")),
    ('df-break-dropped', C, sub(DP, '        data = hexdump.parse(lines, line_format)\n        if data:\n            break\n', '        data = hexdump.parse(lines, line_format)\n')),
    ('df-break-inverted', C, sub(DP, '        data = hexdump.parse(lines, line_format)\n        if data:\n            break\n',
                                 '        data = hexdump.parse(lines, line_format)\n        if not data:\n            break\n')),
    ('df-data-test-inverted', C, sub(DP, '    lines = []\n    if data:\n', '    lines = []\n    if not data:\n')),
    ('df-lines-not-reset', C, sub(DP, '    lines = []\n    if data:\n', '    if data:\n')),
    ('df-parse-arguments-swapped', C, sub(DP, 'data = hexdump.parse(lines, line_format)', 'data = hexdump.parse(line_format, lines)')),
    ('df-default-template-used', C, sub(DP, 'data = hexdump.parse(lines, line_format)', 'data = hexdump.parse(lines)')),
    ('dd-tables-swapped', C, sub(DP, '        _format_trace_data(trace_data, lines, string_file)\n', '        _format_trace_data(trace_data, lines, header_file)\n')),
    ('module-constant-rebound', C, sub(DP, "\n\ndef _get_drawer_type_names() -> list:", "\n\nDIVIDER_LINE = '-'\n\n\ndef _get_drawer_type_names() -> list:")),
    ('module-helper-redefined', C, sub(DP, "\n\ndef parse_args() -> tuple:", "\n\ndef _format_trace_data(data, lines, string_file):\n    lines.append('Trace')\n\n\ndef parse_args() -> tuple:")),
    ('module-callee-replaced', C, sub(DP, 'from io_drawer.ilog import parse_ilog_data\n', 'from io_drawer.trace import parse_trace_data as parse_ilog_data\n')),
    ('module-hexdump-rebound', C, sub(DP, 'import pel.hexdump as hexdump\n', 'import pel.hexdump as hexdump\nimport io_drawer.trace as hexdump\n')),
    ('module-list-constant-reversed', C, sub(DP, "\n\n# Divider line between", "\nHEX_DUMP_LINE_FORMATS.reverse()\n\n\n# Divider line between")),
    ('module-list-constant-element-stored', C, sub(DP, "\n\n# Divider line between", "\nHEX_DUMP_LINE_FORMATS[0] = HEX_DUMP_LINE_FORMATS[1]\n\n\n# Divider line between")),
    ('module-buffer-names-extended', C, lambda files: files.__setitem__(TR, files[TR] + "\nTraceBufferHeader.BUFFER_NAMES.append('XXXX')\n")),
    ('module-math-shadowed', C, sub(HD, 'import math\n', 'import math\nfrom io_drawer import utils as math\n')),
    # ---------------- behaviour-changing, on top of the refactored form harmless/G6-R1 ----------------
    ('g6-guard-comparison', C, seq(sub(HD, G6R1_PARSE_OLD, G6R1_PARSE_NEW), sub(HD, 'if len(line) > len(line_format):', 'if len(line) >= len(line_format):'))),
    ('g6-toggle-replaced-by-set', C, seq(sub(HD, G6R1_PARSE_OLD, G6R1_PARSE_NEW), sub(HD, 'have_high_nibble = not have_high_nibble', 'have_high_nibble = True'))),
    ('g6-literal-continue-dropped', C, seq(sub(HD, G6R1_PARSE_OLD, G6R1_PARSE_NEW),
                                           sub(HD, '                if format_char != line[i]:\n                    break\n                continue\n',
                                               '                if format_char != line[i]:\n                    break\n'))),
    ('g6-ascii-column-test', C, seq(sub(HD, G6R1_PARSE_OLD, G6R1_PARSE_NEW), sub(HD, "if format_char == 'C':", "if format_char == 'c':"))),
    ('g6-flag-initialised-per-file', C, seq(sub(HD, G6R1_PARSE_OLD, G6R1_PARSE_NEW),
                                            sub(HD, '        have_high_nibble = False\n', ''),
                                            sub(HD, '    data = bytearray()\n    for line in lines:', '    data = bytearray()\n    have_high_nibble = False\n    for line in lines:'))),
    # ---------------- behaviour-preserving ----------------
    ('p-hd-locals-renamed', P, in_func(HD, 'hexdump', lambda s: rename('raw', 'hexcol')(rename('text', 'asc')(rename('dump', 'out')(rename('i', 'off')(
        rename('num_chunks', 'chunks')(s))))))),
    ('p-hd-params-renamed', P, in_func(HD, 'hexdump', lambda s: rename('bytes_per_line', 'width')(rename('bytes_per_chunk', 'group')(rename('data', 'buf')(s)))
                                       .replace('"width must', '"bytes_per_line must').replace('"group must', '"bytes_per_chunk must'))),
    ('p-hd-fstring-line', P, sub(HD, APPEND, '        dump.append(f"{i:08X}     {raw}     {text}")\n')),
    ('p-hd-format-method-cell', P, sub(HD, 'raw += ("%02X") % (b)', 'raw += "{:02X}".format(b)')),
    ('p-hd-fstring-cell', P, sub(HD, 'raw += ("%02X") % (b)', 'raw += f"{b:02X}"')),
    ('p-hd-concatenated-line', P, sub(HD, APPEND, '        dump.append(("%08X" % i) + "     " + raw + "     " + text)\n')),
    ('p-hd-inits-swapped', P, sub(HD, "        raw  = ''\n        text = ''\n", "        text = ''\n        raw  = ''\n")),
    ('p-hd-ljusts-swapped', P, sub(HD, '        raw  = raw.ljust(char_per_line)\n        text = text.ljust(bytes_per_line)\n',
                                   '        text = text.ljust(bytes_per_line)\n        raw  = raw.ljust(char_per_line)\n')),
    ('p-hd-cell-statements-swapped', P, seq(sub(HD, ASCII, ''), sub(HD, '            # Add spaces in between each chunk.\n', ASCII + '            # Add spaces in between each chunk.\n'))),
    ('p-hd-condition-rewritten', P, sub(HD, CHUNK, '            if j != 0 and j % bytes_per_chunk == 0:\n')),
    ('p-hd-condition-truthiness', P, sub(HD, CHUNK, '            if j and not j % bytes_per_chunk:\n')),
    ('p-hd-condition-nested', P, sub(HD, CHUNK + "                raw += '  '\n", "            if 0 != j:\n                if 0 == j % bytes_per_chunk:\n                    raw += '  '\n")),
    ('p-hd-chunk-temporary', P, sub(HD, '        for j, b in enumerate(data[i:i+bytes_per_line]):\n',
                                    '        chunk = data[i:i+bytes_per_line]\n        for j, b in enumerate(chunk):\n')),
    ('p-hd-ascii-if-statement', P, sub(HD, ASCII, "            if 0x20 <= b < 0x7f:\n                text += chr(b)\n            else:\n                text += '.'\n")),
    ('p-hd-ascii-negated', P, sub(HD, ASCII, "            text += '.' if not (0x20 <= b < 0x7f) else chr(b)\n")),
    ('p-hd-ascii-two-comparisons', P, sub(HD, ASCII, "            text += chr(b) if b >= 32 and b < 127 else '.'\n")),
    ('p-hd-comments-hints-docstring', P, sub(HD, "    dump = []\n\n    num_chunks", "    dump: list = []  # the lines\n    '''one entry per line'''\n\n    num_chunks")),
    ('p-hd-asserts-swapped', P, swap_blocks(HD, '    assert 1 <= bytes_per_line <= 256, "bytes_per_line must be within 1-256"\n',
                                            '    assert 1 <= bytes_per_chunk <= 256, "bytes_per_chunk must be within 1-256"\n')),
    ('p-hd-assert-two-parts', P, sub(HD, '    assert 1 <= bytes_per_line <= 256, "bytes_per_line must be within 1-256"\n',
                                     '    assert bytes_per_line >= 1 and bytes_per_line <= 256, "bytes_per_line must be within 1-256"\n')),
    ('p-hd-width-rewritten', P, sub(HD, 'char_per_line = bytes_per_line * 2 + (2 * num_chunks) - 2', 'char_per_line = 2 * bytes_per_line + 2 * (num_chunks - 1)')),
    ('p-hd-width-inlined', P, seq(sub(HD, '    num_chunks = math.ceil(bytes_per_line / bytes_per_chunk)\n', ''),
                                  sub(HD, '(2 * num_chunks)', '(2 * math.ceil(bytes_per_line / bytes_per_chunk))'))),
    ('p-hd-line-temporary', P, sub(HD, APPEND, '        entry = ("%08X     %s     %s") % (i, raw, text)\n        dump.append(entry)\n')),
    ('p-G6-R1-refactoring', P, seq(sub(HD, G6R1_HEXDUMP_OLD, G6R1_HEXDUMP_NEW), sub(HD, G6R1_PARSE_OLD, G6R1_PARSE_NEW))),
    ('p-G6-R1-parse-only', P, sub(HD, G6R1_PARSE_OLD, G6R1_PARSE_NEW)),
    ('p-ps-locals-renamed', P, in_func(HD, 'parse', lambda s: rename('prev_byte_is_high_nibble', 'pending')(rename('byte_val', 'bv')(rename('hex_digit', 'hx')(
        rename('line', 'row')(rename('i', 'k')(s))))))),
    ('p-ps-params-renamed', P, in_func(HD, 'parse', lambda s: rename('line_format', 'template')(rename('lines', 'rows')(s)))),
    ('p-ps-template-char-temporary', P, in_func(HD, 'parse', lambda s: s.replace("                if (line_format[i] == 'A'):", "                fc = line_format[i]\n                if (fc == 'A'):")
                                                .replace("elif (line_format[i] == 'D'):", "elif (fc == 'D'):").replace("elif (line_format[i] == 'C'):", "elif (fc == 'C'):")
                                                .replace('elif (line_format[i] != line[i]):', 'elif (fc != line[i]):'))),
    ('p-ps-literal-test-negated-equality', P, sub(HD, 'elif (line_format[i] != line[i]):', 'elif not (line_format[i] == line[i]):')),
    ('p-ps-operands-swapped', P, sub(HD, "if (line_format[i] == 'A'):", "if ('A' == line_format[i]):")),
    ('p-ps-exclusive-branches-swapped', P, seq(sub(HD, "                elif (line_format[i] == 'C'):\n                    continue\n", ''),
                                               sub(HD, "                if (line_format[i] == 'A'):", "                if (line_format[i] == 'C'):\n                    continue\n                elif (line_format[i] == 'A'):"))),
    ('p-ps-flag-compared', P, sub(HD, '                    if prev_byte_is_high_nibble:\n', '                    if prev_byte_is_high_nibble == True:\n')),
    ('p-ps-flag-branches-swapped', P, sub(HD, '''                    if prev_byte_is_high_nibble:
                        byte_val = bytes.fromhex(line[(i-1):(i+1)])
                        data.extend(byte_val)
                        prev_byte_is_high_nibble = False
                    else:
                        prev_byte_is_high_nibble = True
''', '''                    if not prev_byte_is_high_nibble:
                        prev_byte_is_high_nibble = True
                    else:
                        byte_val = bytes.fromhex(line[(i-1):(i+1)])
                        data.extend(byte_val)
                        prev_byte_is_high_nibble = False
''')),
    ('p-ps-extend-direct', P, sub(HD, '                        byte_val = bytes.fromhex(line[(i-1):(i+1)])\n                        data.extend(byte_val)\n',
                                  '                        data.extend(bytes.fromhex(line[(i-1):(i+1)]))\n')),
    ('p-ps-class-reordered', P, sub(HD, "re.compile('^[0-9a-fA-F]$')", "re.compile('^[A-Fa-f0-9]$')")),
    ('p-ps-length-test-reversed', P, sub(HD, 'if len(line) <= len(line_format):', 'if len(line_format) >= len(line):')),
    ('p-ps-comments-docstring', P, sub(HD, "    hex_digit = re.compile('^[0-9a-fA-F]$')\n", "    # one hex digit\n    hex_digit = re.compile('^[0-9a-fA-F]$')  # compiled once\n    '''walk'''\n")),
    ('p-dd-locals-renamed', P, in_func(DP, 'parse_dump_data', lambda s: rename('buffer_offsets', 'offs')(rename('buffer_name', 'nm')(rename('start_bytes', 'pat')(
        rename('ilog_data', 'il')(rename('trace_data', 'tr')(rename('begin', 'lo')(rename('end', 'hi')(s))))))))),
    ('p-dd-params-renamed', P, in_func(DP, 'parse_dump_data', lambda s: rename('header_file', 'hf')(rename('string_file', 'sf')(rename('data', 'view')(s))))),
    ('p-dd-helper-inlined-by-hand', P, sub(DP, ILOG_CALL, "    lines.append('ILOG')\n    lines.append('')\n    lines.extend(parse_ilog_data(ilog_data, header_file))\n    lines.append('')\n    lines.append(DIVIDER_LINE)\n    lines.append('')\n")),
    ('p-dd-helper-locals-renamed', P, in_func(DP, '_format_trace_data', lambda s: rename('lines', 'out')(rename('data', 'region')(rename('string_file', 'sf')(s))))),
    ('p-dd-length-test', P, sub(DP, END_IF, END_IF.replace('if buffer_offsets:', 'if len(buffer_offsets) > 0:'))),
    ('p-dd-conditional-expression', P, sub(DP, END_IF, '    end = buffer_offsets[0] if buffer_offsets else len(data)\n')),
    ('p-dd-branches-swapped', P, sub(DP, END_IF, '    if not buffer_offsets:\n        end = len(data)\n    else:\n        end = buffer_offsets[0]\n')),
    ('p-dd-slice-from-start', P, sub(DP, '    ilog_data = data[begin:end]\n', '    ilog_data = data[:end]\n')),
    ('p-dd-pattern-inlined', P, sub(DP, '        start_bytes = TRACE_BUFFER_HEADER_START + buffer_name.encode()\n        offset = data_bytes.find(start_bytes)\n',
                                    '        offset = data_bytes.find(TRACE_BUFFER_HEADER_START + buffer_name.encode())\n')),
    ('p-dd-find-test-other-way', P, sub(DP, '        if offset != -1:\n            buffer_offsets.append(offset)\n', '        if offset == -1:\n            pass\n        else:\n            buffer_offsets.append(offset)\n')),
    ('p-dd-find-test-operands-swapped', P, sub(DP, 'if offset != -1:', 'if -1 != offset:')),
    ('p-dd-region-test-rewritten', P, sub(DP, TRACE_LOOP, TRACE_LOOP.replace('(i + 1) < len(buffer_offsets)', 'len(buffer_offsets) > i + 1'))),
    ('p-dd-region-without-begin', P, sub(DP, TRACE_LOOP, TRACE_LOOP.replace('        begin = buffer_offset\n', '').replace('data[begin:end]', 'data[buffer_offset:end]'))),
    ('p-dd-sorted-in-place-of-name', P, sub(DP, '    buffer_offsets = sorted(buffer_offsets)\n    begin = 0\n', '    begin = 0\n    buffer_offsets = sorted(buffer_offsets)\n')),
    ('p-dd-empty-test-length', P, sub(DP, '    if not data:\n        return lines\n', '    if len(data) == 0:\n        return lines\n')),
    ('p-dd-result-alias', P, seq(sub(DP, '    lines = []\n\n    # Verify we have at least one byte of data', '    lines = []\n    result = lines\n\n    # Verify we have at least one byte of data'),
                                 sub(DP, '        _format_trace_data(trace_data, lines, string_file)\n\n    return lines\n', '        _format_trace_data(trace_data, lines, string_file)\n\n    return result\n'))),
    ('p-dd-comments-hints', P, sub(DP, '    buffer_offsets = []\n    for buffer_name', '    buffer_offsets: list = []  # hits\n    """search"""\n    for buffer_name')),
    ('p-dd-divider-concatenated', P, sub(DP, "DIVIDER_LINE = \\\n    '" + '-' * 73 + "'", "DIVIDER_LINE = \\\n    '" + '-' * 36 + "' + '" + '-' * 37 + "'")),
    ('p-df-locals-renamed', P, in_func(DP, 'parse_dump_file', lambda s: rename('line_format', 'tmpl')(rename('file', 'fh')(rename('data', 'raw')(s))))),
    ('p-df-break-test-length', P, sub(DP, '        if data:\n            break\n', '        if len(data) > 0:\n            break\n')),
    ('p-df-memoryview-dropped', P, sub(DP, '        data = memoryview(data)\n        lines = parse_dump_data(data, header_file, string_file)\n',
                                       '        lines = parse_dump_data(memoryview(data), header_file, string_file)\n')),
    ('p-df-result-temporary', P, sub(DP, '        lines = parse_dump_data(data, header_file, string_file)\n', '        result = parse_dump_data(data, header_file, string_file)\n        lines = result\n')),
]

def restore():
    run(['git', 'checkout', '--', '.'], cwd=REPO)


def evaluate():
    env = dict(os.environ, VERIF_REPO=REPO)
    rc, out = run(['/venv/bin/python', os.path.join(VERIF, 'harness', 'extract.py')], cwd=VERIF, env=env)
    if rc != 0:
        return 'EXTRACT-FAILED', [out[-300:]], []
    mine = ('hexdump ', 'hexdumpDefaults ', 'parse ', 'parseDefaultFormat ', 'defaultLineFormat ', 'hexDumpLineFormats ', 'traceBufferHeaderStart ',
            'dividerLine ', 'bufferNames ', 'parseDumpData ', 'parseDumpFile ')
    una = [l.split(' ', 1)[1] for l in out.split('\n') if l.startswith('TRANSLATION-UNAVAILABLE ')]
    una = [u for u in una if u.startswith(mine)]
    rc, out = run(['lake', 'build'] + ['PelProps.' + t for t in TIES], cwd=os.path.join(VERIF, 'lean'))
    broken = []
    if rc != 0:
        broken = sorted(set(re.findall(r'^- PelProps\.(\w+)', out, re.M)))
        if not broken:
            broken = ['build failed: ' + out[-300:]]
    verdict = 'BROKEN' if broken else ('UNAVAILABLE' if una else 'PROVED')
    return verdict, una, broken


def main():
    sel = sys.argv[1:]
    rc, out = run(['git', 'status', '--porcelain'], cwd=REPO)
    if out.strip():
        sys.exit('the worktree %s is not clean:\n%s' % (REPO, out))
    rows = []
    try:
        v, una, broken = evaluate()
        rows.append(('(unchanged tree)', '-', v, una, broken, 0.0))
        print('%-42s %-9s %-12s %s %s' % rows[-1][:5], flush=True)
        for name, kind, mut in MUTANTS:
            if sel and not any(x in name for x in sel):
                continue
            files = {p: open(os.path.join(REPO, p), encoding='utf-8').read() for p in FILES}
            before = dict(files)
            t0 = time.time()
            try:
                mut(files)
                if files == before:
                    raise RuntimeError('mutant changes nothing')
                for p in files:
                    compile(files[p], p, 'exec')           # a mutant must at least be valid Python
                for p in files:
                    if files[p] != before[p]:
                        with open(os.path.join(REPO, p), 'w', encoding='utf-8') as f:
                            f.write(files[p])
                v, una, broken = evaluate()
            except (RuntimeError, SyntaxError) as e:
                v, una, broken = 'MUTANT-ERROR', [str(e)], []
            finally:
                restore()
            rows.append((name, kind, v, una, broken, time.time() - t0))
            print('%-42s %-9s %-12s %s %s' % (name, kind, v, '; '.join(u.split(' ')[0] + ' ' + u.split(' ', 1)[1][:90] for u in una), ' '.join(broken)), flush=True)
    finally:
        restore()
        evaluate()
    print()
    print('| mutant | kind | verdict | not translated (`none`) | tie modules broken |')
    print('|---|---|---|---|---|')
    for name, kind, v, una, broken, _ in rows:
        print('| %s | %s | %s | %s | %s |' % (name, kind, v, ', '.join(u.split(' ')[0] for u in una) or '-', ' '.join(broken) or '-'))
    bad = [r for r in rows if r[1] == C and r[2] == 'PROVED']
    errs = [r for r in rows if r[2] in ('MUTANT-ERROR', 'EXTRACT-FAILED')]
    pres = [r for r in rows if r[1] == P]
    chg = [r for r in rows if r[1] == C]
    print()
    print('behaviour-changing mutants: %d — BROKEN %d, UNAVAILABLE %d, PROVED (must be 0) %d' % (
        len(chg), len([r for r in chg if r[2] == 'BROKEN']), len([r for r in chg if r[2] == 'UNAVAILABLE']), len(bad)))
    print('behaviour-preserving rewrites: %d — PROVED %d, UNAVAILABLE %d, BROKEN %d' % (
        len(pres), len([r for r in pres if r[2] == 'PROVED']), len([r for r in pres if r[2] == 'UNAVAILABLE']),
        len([r for r in pres if r[2] == 'BROKEN'])))
    if errs:
        print('mutants that did not apply: ' + ', '.join(r[0] for r in errs))
    ok = not bad and not errs and rows[0][2] == 'PROVED'
    print('SELF-TEST ' + ('OK' if ok else 'FAILED'))
    return 0 if ok else 1


if __name__ == '__main__':
    sys.exit(main())
